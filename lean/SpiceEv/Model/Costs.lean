/-
Model of spice_ev/costs.py, transliterated statement by statement:
`get_flexible_load`, `find_prices`, `calculate_commodity_costs`, `calculate_capacity_costs_rlm`,
`calculate_feed_in_remuneration` and `calculate_costs` for the seven cost schemes, including the
result dict (rounded) and the "costs" section written to the results JSON.

Generic in the number type (runs on `Rat` in the driver against the real code on exact rationals,
is instantiated at an arbitrary linearly ordered field in the proofs).  Python exceptions are
explicit (`Py = Except PyErr`).  Core Lean only.

Structure (the Python function is one 700-line body; the model keeps its statement order):
  `prelude`      lines 201-243   sheet, fraction_year, sign change, window peak, energy, utilisation,
                                 first `find_prices`
  `schemeCosts`  lines 245-616   commodity / PLW / capacity / balanced_market / flex_window / schedule
  `assemble`     lines 618-751   additional costs, procurement, levies, concession, feed-in, taxes,
                                 VAT, totals (pure)
  `roundResult`  lines 753-789, 903-911   the returned dict
  `jsonSection`  lines 791-900   the "costs" section of the results JSON
Timestamps enter only through `len(timestamps_list)` (`nTimestamps`): the model has no date input.
-/
import SpiceEv.Py
namespace SpiceEv.Costs
open SpiceEv

/-- `UTILIZATION_TIME_PER_YEAR_EC` [h/a] -/
def utilizationTimePerYearEC : Nat := 2500
/-- `MAX_ENERGY_SUPPLY_PER_YEAR_SLP` [kWh/a] -/
def maxEnergySupplyPerYearSLP : Nat := 100000
/-- `datetime.timedelta(days=365).total_seconds()` -/
def secondsPerYear : Nat := 31536000
/-- the literal `100` in `peak_diff > 100` (kW) of the peak-load-window significance rule -/
def plwPeakDiffKW : Nat := 100

example : utilizationTimePerYearEC = 2500 := rfl
example : maxEnergySupplyPerYearSLP = 100000 := rfl
example : secondsPerYear = 365 * 24 * 3600 := rfl
example : plwPeakDiffKW = 100 := rfl

/-- `cc_type`; the code tests `startswith("fixed")`, `startswith("variable")`, `endswith("w_plw")`
and equality with the three special names; everything else raises `NotImplementedError`. -/
inductive Scheme where
  | fixedWoPlw | fixedWPlw | variableWoPlw | variableWPlw | balancedMarket | flexWindow | schedule
  | other
  deriving DecidableEq, Repr, Inhabited

def Scheme.isFixed : Scheme → Bool
  | .fixedWoPlw | .fixedWPlw => true | _ => false
def Scheme.isVariable : Scheme → Bool
  | .variableWoPlw | .variableWPlw => true | _ => false
def Scheme.isWPlw : Scheme → Bool
  | .fixedWPlw | .variableWPlw => true | _ => false

/-- `fee_type` strings: "SLP", "RLM", anything else (→ `KeyError` in the price sheet). -/
inductive FeeType where
  | slp | rlm | other
  deriving DecidableEq, Repr, Inhabited

/-- the `price_list` argument: `None`, a list, or a dict with optional "procurement"/"commodity". -/
inductive PriceArg (α : Type) where
  | none
  | list (l : List α)
  | dict (procurement commodity : Option (List α))
  deriving Repr

/-- The numbers `calculate_costs` reads from the grid operator's section of the price sheet.
Voltage-level tables are lists indexed by HV, HV/MV, MV, MV/LV, LV (, eHV, eHV/HV for the
significance threshold); an index outside the list is Python's `KeyError`. -/
structure PriceSheet (α : Type) where
  slpBasic : α
  slpCommodity : α
  rlmLowCommodity : List α
  rlmLowCapacity : List α
  rlmHighCommodity : List α
  rlmHighCapacity : List α
  additionalCosts : α
  procurement : α
  eeg : α
  chp : α
  individual : α
  offshore : α
  interruptible : α
  concession : α
  vat : α
  electricityTax : α
  pvKwp : List α
  pvRemuneration : List α
  v2g : α
  battery : α
  significance : List α
  schedReduction : α
  schedDeviationCharge : α
  schedDeviationTolerance : α
  deriving Repr

structure Input (α : Type) where
  scheme : Scheme
  voltageLevel : Nat
  /-- `interval.total_seconds()` -/
  sec : α
  /-- `len(timestamps_list)` — the only thing the code uses of the timestamps -/
  nTimestamps : Nat
  supply : List α
  prices : PriceArg α
  fixLoad : List α
  genFeedIn : Option (List α)
  v2gFeedIn : Option (List α)
  batFeedIn : Option (List α)
  /-- truth values of `window_signal_list` -/
  window : Option (List Bool)
  /-- `json.load(ps).get(grid_operator)`; `none` = missing/empty section -/
  sheet : Option (PriceSheet α)
  feeType : Option FeeType
  pvNominal : α
  scheduleList : Option (List α)
  deriving Repr

/-- fixed/flexible split of the three special schemes (unrounded; written to the JSON as is) -/
structure FixFlex (α : Type) where
  commodityYearFix : α
  commoditySimFix : α
  capacityFix : α
  commodityYearFlex : α
  commoditySimFlex : α
  capacityFlex : α
  deriving Repr

/-- result of lines 245-616 -/
structure Core (α : Type) where
  feeType : FeeType
  commoditySim : α
  commodityYear : α
  capacity : α
  /-- `power_procurement_costs_sim` accumulated by the variable schemes -/
  procurementSimVar : Option α
  fixFlex : Option (FixFlex α)
  peakInWindows : Option α
  sigSheet : Option α
  deriving Repr

/-- every quantity of `calculate_costs` before rounding -/
structure Detail (α : Type) where
  feeType : FeeType
  fractionYear : α
  energySim : α
  energyPa : α
  utilization : α
  peakInWindows : Option α
  sigSheet : Option α
  commoditySim : α
  commodityYear : α
  capacity : α
  fixFlex : Option (FixFlex α)
  additionalYear : α
  additionalSim : α
  procurementSim : α
  procurementYear : α
  eegSim : α
  chpSim : α
  indSim : α
  offSim : α
  intSim : α
  leviesTotalSim : α
  eegYear : α
  chpYear : α
  indYear : α
  offYear : α
  intYear : α
  concessionSim : α
  concessionYear : α
  pvYear : α
  pvSim : α
  v2gYear : α
  v2gSim : α
  batYear : α
  batSim : α
  taxSim : α
  taxYear : α
  netSim : α
  netYear : α
  vatSim : α
  vatYear : α
  grossSim : α
  grossYear : α
  totalSim : α
  totalYear : α
  deriving Repr

/-- the returned dict -/
structure Result (α : Type) where
  totalCostsPerYear : α
  commodityCostsPerYear : α
  capacityCosts : α
  procurementPerYear : α
  leviesFeesTaxesPerYear : α
  feedInPerYear : α
  peakPowerInWindows : Option α
  deriving Repr

section
variable {α : Type} [Add α] [Sub α] [Mul α] [Div α] [Neg α] [LT α] [LE α]
  [DecidableLT α] [DecidableLE α] [OfNat α 0] [NatCast α]

/-- integer literal of the source as a number -/
@[inline] def lit (n : Nat) : α := (n : α)

/-- `a == b` on numbers, via `<` only -/
@[inline] def nEq (a b : α) : Bool := !(decide (a < b)) && !(decide (b < a))

/-- builtin `sum(l)`: left fold from `0` -/
def pySum (l : List α) : α := l.foldl (· + ·) 0

/-- builtin `max(l)`: first maximal element, `ValueError` on the empty list -/
def pyMax : List α → Py α
  | [] => .error .valueError
  | x :: xs => .ok (xs.foldl pymax x)

/-- `max(l + [0])` -/
def maxWith0 (l : List α) : α :=
  match l ++ [0] with
  | [] => 0
  | x :: xs => xs.foldl pymax x

/-- `d[key]` on a voltage-level table -/
def lookupLevel (tbl : List α) (vl : Nat) : Py α :=
  match tbl[vl]? with
  | some v => .ok v
  | none => .error .keyError

/-- `l[i]` -/
def listIndex (l : List α) (i : Nat) : Py α :=
  match l[i]? with
  | some v => .ok v
  | none => .error .indexError

/-- `get_flexible_load`: `[max(s - fix[i], 0) for i, s in enumerate(supply)]` -/
def getFlexibleLoad : List α → List α → Py (List α)
  | [], _ => .ok []
  | _ :: _, [] => .error .indexError
  | s :: ss, f :: fs => do
    let r ← getFlexibleLoad ss fs
    .ok (pymax (s - f) 0 :: r)

/-- `find_prices` → `(commodity_charge, capacity_charge, fee_type)` -/
def findPrices (ps : PriceSheet α) (fee : Option FeeType) (vl : Nat) (util energyPa : α) :
    Py (α × α × FeeType) :=
  let below : Bool := decide (pyabs energyPa ≤ lit maxEnergySupplyPerYearSLP)
  let fee1 : Option FeeType := if fee = some .slp ∧ below = false then some .rlm else fee
  let fee2 : FeeType := match fee1 with
    | none => if below then .slp else .rlm
    | some f => f
  match fee2 with
  | .slp => .ok (ps.slpCommodity, ps.slpBasic, .slp)
  | .rlm =>
    if util < lit utilizationTimePerYearEC then do
      let c ← lookupLevel ps.rlmLowCommodity vl
      let k ← lookupLevel ps.rlmLowCapacity vl
      .ok (c, k, .rlm)
    else do
      let c ← lookupLevel ps.rlmHighCommodity vl
      let k ← lookupLevel ps.rlmHighCapacity vl
      .ok (c, k, .rlm)
  | .other => .error .keyError

/-- loop of `calculate_commodity_costs`: `acc += power[i] * seconds / 3600 * price[i] / 100` -/
def commodityLoop (sec : α) : List α → List α → α → Py α
  | [], _, acc => .ok acc
  | _ :: _, [], _ => .error .indexError
  | p :: ps, c :: cs, acc => commodityLoop sec ps cs (acc + p * sec / lit 3600 * c / lit 100)

/-- `calculate_commodity_costs` → `(per_year, sim)` -/
def calculateCommodityCosts (prices powers : List α) (sec fy : α) : Py (α × α) := do
  let sim ← commodityLoop sec powers prices 0
  let perYear ← pydiv sim fy
  .ok (perYear, sim)

/-- `calculate_capacity_costs_rlm` -/
@[inline] def calculateCapacityCostsRlm (capacityCharge power : α) : α := capacityCharge * power

/-- `calculate_feed_in_remuneration` → `(per_year, sim)`; a missing list is `[0] * len(timestamps)` -/
def calculateFeedInRemuneration (charge : α) (l : Option (List α)) (n : Nat) (sec fy : α) :
    Py (α × α) := do
  let l := match l with
    | none => List.replicate n 0
    | some l => l
  let energySim := pySum l * sec / lit 3600
  let energyYear ← pydiv energySim fy
  .ok (energyYear * charge / lit 100, energySim * charge / lit 100)

/-- `[l for (l, w) in zip(loads, window) if w]` -/
def windowLoads : List α → List Bool → List α
  | l :: ls, w :: ws => if w then l :: windowLoads ls ws else windowLoads ls ws
  | _, _ => []

/-- lines 201-243 -/
structure Prelude (α : Type) where
  ps : PriceSheet α
  fy : α
  supply : List α
  fix : List α
  peakInWindows : Option α
  energySim : α
  energyPa : α
  maxPower : α
  util : α
  commodityCharge : α
  capacityCharge : α
  feeType : FeeType

def prelude (inp : Input α) : Py (Prelude α) := do
  -- assert bool(price_sheet)
  let ps ← match inp.sheet with
    | none => (.error .assertion : Py (PriceSheet α))
    | some ps => .ok ps
  -- fraction_year = len(timestamps_list) * interval / datetime.timedelta(days=365)
  let fy : α := lit inp.nTimestamps * inp.sec / lit secondsPerYear
  let supply := inp.supply.map (fun v => pymax (-v) 0)
  let fix := inp.fixLoad.map (fun v => pymax v 0)
  let peakInWindows := inp.window.map (fun w => maxWith0 (windowLoads supply w))
  let energySim := pySum supply * inp.sec / lit 3600
  let energyPa ← pydiv energySim fy
  let maxPower := maxWith0 supply
  let util : α :=
    if nEq maxPower 0 then 0
    else if inp.scheme.isWPlw then lit utilizationTimePerYearEC
    else pyabs (energyPa / maxPower)
  let (cc, cap, fee) ← findPrices ps inp.feeType inp.voltageLevel util energyPa
  .ok ⟨ps, fy, supply, fix, peakInWindows, energySim, energyPa, maxPower, util, cc, cap, fee⟩

/-- loop of the variable schemes (lines 271-279) → `(commodity_sim, procurement_sim)` -/
def variableLoop (tsPerHour : α) : List α → List α → List α → α → α → Py (α × α)
  | [], _, _, c, p => .ok (c, p)
  | _ :: _, [], _, _, _ => .error .indexError
  | _ :: _, _ :: _, [], _, _ => .error .indexError
  | pw :: pws, cp :: cps, pp :: pps, c, p =>
    variableLoop tsPerHour pws cps pps (c + pw * tsPerHour * cp / lit 100)
      (p + pw * tsPerHour * pp / lit 100)

/-- the "COSTS FOR FIXED LOAD" block, identical in `balanced_market`, `flex_window` and `schedule`
(the latter subtracts `reduction_of_commodity_charge`) →
`(commodity_per_year_fix, commodity_sim_fix, capacity_fix, fee_type)` -/
def fixedLoadCosts (ps : PriceSheet α) (fee : FeeType) (vl : Nat) (fix : List α) (sec fy : α)
    (reduction : Option α) : Py (α × α × α × FeeType) :=
  let maxFix := maxWith0 fix
  if nEq maxFix 0 then .ok (0, 0, 0, fee)
  else do
    let energySimFix := pySum fix * sec / lit 3600
    let energyYearFix ← pydiv energySimFix fy
    let utilFix := pyabs (energyYearFix / maxFix)
    let (ccFix, capChargeFix, fee') ← findPrices ps (some fee) vl utilFix energyYearFix
    let ccFix := match reduction with
      | none => ccFix
      | some r => ccFix - r
    let (cy, cs) ← calculateCommodityCosts (List.replicate fix.length ccFix) fix sec fy
    .ok (cy, cs, calculateCapacityCostsRlm capChargeFix maxFix, fee')

/-- `balanced_market`: peak of the flexible load at the times of the highest price -/
def highTariffPeak (maxPrice : α) : List α → List α → α → Py α
  | [], _, m => .ok m
  | _ :: _, [], _ => .error .indexError
  | p :: ps, c :: cs, m =>
    highTariffPeak maxPrice ps cs (if nEq c maxPrice && decide (m < p) then p else m)

/-- `flex_window`: flexible loads at the steps whose window signal is falsy -/
def offWindowLoads : List α → List Bool → Py (List α)
  | [], _ => .ok []
  | _ :: _, [] => .error .indexError
  | p :: ps, w :: ws => do
    let r ← offWindowLoads ps ws
    .ok (if w then r else p :: r)

/-- `[max(supply[i] - s, 0) for i, s in enumerate(schedule)]` -/
def posDeviation : List α → List α → Py (List α)
  | _, [] => .ok []
  | [], _ :: _ => .error .indexError
  | g :: gs, s :: ss => do
    let r ← posDeviation gs ss
    .ok (pymax (g - s) 0 :: r)

/-- COMMODITY COSTS, lines 247-280 → `((per_year, sim)` if computed here`, procurement_sim` if
variable`)` -/
def commodityBlock (inp : Input α) (pre : Prelude α) : Py (Option (α × α) × Option α) :=
  let ps := pre.ps
  let n := inp.nTimestamps
  if inp.scheme.isFixed then do
    let (cy, cs) ← calculateCommodityCosts
      (List.replicate pre.supply.length pre.commodityCharge) pre.supply inp.sec pre.fy
    .ok (some (cy, cs), none)
  else if inp.scheme.isVariable then
    match inp.prices with
    | .dict proc com =>
      if proc.isNone && com.isNone then .error .valueError
      else do
        -- `if procurement_price_list is None: … = [charge] * len(timestamps_list)`
        let procL := proc.getD (List.replicate n ps.procurement)
        let comL := com.getD (List.replicate n pre.commodityCharge)
        let tsPerHour := inp.sec / lit 3600
        let (cs, pcs) ← variableLoop tsPerHour pre.supply comL procL 0 0
        let cy ← pydiv cs pre.fy
        .ok (some (cy, cs), some pcs)
    | _ => .error .exception       -- `price_list.get`: AttributeError
  else .ok (none, none)

/-- PEAK LOAD WINDOWS, lines 282-304 → `(max_power_grid_supply, peak_power_in_windows,
significance threshold from the price sheet)` -/
def plwBlock (inp : Input α) (pre : Prelude α) : Py (α × Option α × Option α) :=
  if inp.scheme.isWPlw then do
    -- `if window_signal_list is None: peak_power_in_windows = 0`
    let peak : α := pre.peakInWindows.getD 0
    let sig : α :=
      if 0 < pre.maxPower then ((pre.maxPower - peak) / pre.maxPower) * lit 100 else 0
    let sigSheet ← lookupLevel pre.ps.significance inp.voltageLevel
    let peakDiff := pre.maxPower - peak
    let mp := if sigSheet < sig ∧ lit plwPeakDiffKW < peakDiff then peak else pre.maxPower
    .ok (mp, some peak, some sigSheet)
  else .ok (pre.maxPower, pre.peakInWindows, none)

/-- `balanced_market`, lines 369-378: the price list in ct/kWh (`price_list.get("commodity")` of a
dict; the fixed commodity charge if there is none) -/
def marketPriceList (inp : Input α) (commodityCharge : α) : List α :=
  let given : Option (List α) := match inp.prices with
    | .dict _ com => com
    | .list l => some l
    | .none => none
  match given with
  | none => List.replicate inp.nTimestamps commodityCharge
  | some l => l.map (fun p => p * lit 100)

/-- lines 245-616 -/
def schemeCosts (inp : Input α) (pre : Prelude α) : Py (Core α) := do
  let ps := pre.ps
  let vl := inp.voltageLevel
  let (commodity, procVar) ← commodityBlock inp pre
  let (maxPower, peakInWindows, sigSheet) ← plwBlock inp pre
  -- CAPACITY COSTS
  let capacity : α :=
    if pre.feeType = .slp then pre.capacityCharge
    else calculateCapacityCostsRlm pre.capacityCharge maxPower
  match inp.scheme with
  | .balancedMarket => do
    let (cyFix, csFix, capFix, fee2) ← fixedLoadCosts ps pre.feeType vl pre.fix inp.sec pre.fy none
    let flex ← getFlexibleLoad pre.supply pre.fix
    let priceList := marketPriceList inp pre.commodityCharge
    let maxPrice ← pyMax priceList
    let peakHigh ← highTariffPeak maxPrice flex priceList 0
    let (_, capChargeFlex, fee3) ← findPrices ps (some fee2) vl (lit utilizationTimePerYearEC)
      pre.energyPa
    let capFlex := calculateCapacityCostsRlm capChargeFlex peakHigh
    let (cyFlex, csFlex) ← calculateCommodityCosts priceList flex inp.sec pre.fy
    .ok ⟨fee3, csFix + csFlex, cyFix + cyFlex, capFix + capFlex, procVar,
      some ⟨cyFix, csFix, capFix, cyFlex, csFlex, capFlex⟩, peakInWindows, sigSheet⟩
  | .flexWindow => do
    let (cyFix, csFix, capFix, fee2) ← fixedLoadCosts ps pre.feeType vl pre.fix inp.sec pre.fy none
    let flex ← getFlexibleLoad pre.supply pre.fix
    let (ccFlex, capChargeFlex, fee3) ← findPrices ps (some fee2) vl
      (lit utilizationTimePerYearEC) pre.energyPa
    let (cyFlex, csFlex) ← calculateCommodityCosts (List.replicate flex.length ccFlex) flex
      inp.sec pre.fy
    let offLoads ← match inp.window with
      | none => (if flex.isEmpty then .ok [] else .error .typeError : Py (List α))
      | some w => offWindowLoads flex w
    let capFlex ← (if offLoads.isEmpty then .ok 0 else do
      let m ← pyMax offLoads
      .ok (calculateCapacityCostsRlm capChargeFlex m) : Py α)
    .ok ⟨fee3, csFix + csFlex, cyFix + cyFlex, capFix + capFlex, procVar,
      some ⟨cyFix, csFix, capFix, cyFlex, csFlex, capFlex⟩, peakInWindows, sigSheet⟩
  | .schedule => do
    let (cyFix, csFix, capFix, fee2) ← fixedLoadCosts ps pre.feeType vl pre.fix inp.sec pre.fy
      (some ps.schedReduction)
    let flex ← getFlexibleLoad pre.supply pre.fix
    let (ccFlex, _, fee3) ← findPrices ps (some fee2) vl (lit utilizationTimePerYearEC)
      pre.energyPa
    let (cyFlex, csFlex) ← calculateCommodityCosts (List.replicate flex.length ccFlex) flex
      inp.sec pre.fy
    let capFlex ← (match inp.scheduleList with
      | none => .ok 0
      | some sched => do
        let schedPos := sched.map (fun v => pymax v 0)
        let posDev ← posDeviation pre.supply schedPos
        let maxPosDev ← pyMax posDev
        let maxSched ← pyMax schedPos
        let lowerLimit := maxSched * ps.schedDeviationTolerance
        let charged := pymax (maxPosDev - lowerLimit) 0
        .ok (calculateCapacityCostsRlm ps.schedDeviationCharge charged) : Py α)
    .ok ⟨fee3, csFix + csFlex, cyFix + cyFlex, capFix + capFlex, procVar,
      some ⟨cyFix, csFix, capFix, cyFlex, csFlex, capFlex⟩, peakInWindows, sigSheet⟩
  | _ =>
    match commodity with
    | some (cy, cs) => .ok ⟨pre.feeType, cs, cy, capacity, procVar, none, peakInWindows, sigSheet⟩
    | none => .error .runtime        -- NotImplementedError (a RuntimeError)

/-- feed-in charge for PV by nominal power (lines 675-690) -/
def pvFeedInCharge (ps : PriceSheet α) (pvNominal : α) : Py α :=
  if nEq pvNominal 0 then .ok 0
  else do
    let k0 ← listIndex ps.pvKwp 0
    if pvNominal ≤ k0 then listIndex ps.pvRemuneration 0
    else do
      let k1 ← listIndex ps.pvKwp 1
      if pvNominal ≤ k1 then listIndex ps.pvRemuneration 1
      else do
        let k2 ← listIndex ps.pvKwp 2
        if pvNominal ≤ k2 then listIndex ps.pvRemuneration 2
        else .error .valueError

/-- lines 618-751 (pure): everything that does not depend on the scheme -/
def assemble (ps : PriceSheet α) (fy energySim energyPa util : α) (core : Core α)
    (pv v2g bat : α × α) : Detail α :=
  let additionalYear : α := if core.feeType = .rlm then ps.additionalCosts else 0
  let additionalSim : α := if core.feeType = .rlm then ps.additionalCosts * fy else 0
  let procurementSim : α := match core.procurementSimVar with
    | some p => p
    | none => ps.procurement * energySim / lit 100
  let procurementYear := procurementSim / fy
  let eegSim := ps.eeg * energySim / lit 100
  let chpSim := ps.chp * energySim / lit 100
  let indSim := ps.individual * energySim / lit 100
  let offSim := ps.offshore * energySim / lit 100
  let intSim := ps.interruptible * energySim / lit 100
  let leviesTotalSim := eegSim + chpSim + indSim + offSim + intSim
  let concessionSim := ps.concession * energySim / lit 100
  let taxSim := ps.electricityTax * energySim / lit 100
  let vat := ps.vat / lit 100
  let netSim := core.commoditySim + core.capacity + procurementSim + additionalSim
    + leviesTotalSim + concessionSim + taxSim
  let netYear := (netSim - core.capacity) / fy + core.capacity
  let vatSim := vat * netSim
  let vatYear := vat * netYear
  let grossSim := netSim + vatSim
  let grossYear := netYear + vatYear
  { feeType := core.feeType, fractionYear := fy, energySim := energySim, energyPa := energyPa,
    utilization := util, peakInWindows := core.peakInWindows, sigSheet := core.sigSheet,
    commoditySim := core.commoditySim, commodityYear := core.commodityYear,
    capacity := core.capacity, fixFlex := core.fixFlex,
    additionalYear := additionalYear, additionalSim := additionalSim,
    procurementSim := procurementSim, procurementYear := procurementYear,
    eegSim := eegSim, chpSim := chpSim, indSim := indSim, offSim := offSim, intSim := intSim,
    leviesTotalSim := leviesTotalSim,
    eegYear := eegSim / fy, chpYear := chpSim / fy, indYear := indSim / fy, offYear := offSim / fy,
    intYear := intSim / fy,
    concessionSim := concessionSim, concessionYear := concessionSim / fy,
    pvYear := pv.1, pvSim := pv.2, v2gYear := v2g.1, v2gSim := v2g.2, batYear := bat.1,
    batSim := bat.2,
    taxSim := taxSim, taxYear := taxSim / fy,
    netSim := netSim, netYear := netYear, vatSim := vatSim, vatYear := vatYear,
    grossSim := grossSim, grossYear := grossYear,
    totalSim := grossSim - pv.2 - v2g.2 - bat.2,
    totalYear := grossYear - pv.1 - v2g.1 - bat.1 }

/-- `calculate_costs` up to (not including) the rounding -/
def calculateCostsRaw (inp : Input α) : Py (Detail α) := do
  let pre ← prelude inp
  let core ← schemeCosts inp pre
  let pvCharge ← pvFeedInCharge pre.ps inp.pvNominal
  let pv ← calculateFeedInRemuneration pvCharge inp.genFeedIn inp.nTimestamps inp.sec pre.fy
  let v2g ← calculateFeedInRemuneration pre.ps.v2g inp.v2gFeedIn inp.nTimestamps inp.sec pre.fy
  let bat ← calculateFeedInRemuneration pre.ps.battery inp.batFeedIn inp.nTimestamps inp.sec pre.fy
  .ok (assemble pre.ps pre.fy pre.energySim pre.energyPa pre.util core pv v2g bat)

/-- lines 753-789 and the returned dict; `r` is `round(·, 2)` -/
def roundResult (r : α → α) (d : Detail α) : Result α :=
  { totalCostsPerYear := r d.totalYear
    commodityCostsPerYear := r d.commodityYear
    capacityCosts := r d.capacity
    procurementPerYear := r d.procurementYear
    leviesFeesTaxesPerYear :=
      r (r d.eegYear + r d.chpYear + r d.indYear + r d.offYear + r d.intYear
         + r d.concessionYear + r d.taxYear + r d.vatYear)
    feedInPerYear := r (d.pvYear + d.v2gYear + d.batYear)
    peakPowerInWindows := d.peakInWindows }

/-- a leaf of the "costs" section of the results JSON -/
inductive Leaf (α : Type) where
  | num (x : α)
  | info                -- "no differentiation between fixed and flexible load"
  | key (s : String)    -- the computed key: "capacity costs" / "basic costs"
  deriving Repr

/-- lines 791-891: the numeric leaves of `json_results_costs` in document order ("per year", then
"for simulation period"), preceded by the significance threshold written for the `w_plw` schemes.
Note that `commodity_costs_eur_per_year`, `capacity_costs_eur` and the procurement costs have been
re-bound to their rounded values at this point.  REPAIRED behaviour (fixes/C12a.diff): the variable
schemes, like the fixed ones, report "no differentiation between fixed and flexible load"; the pinned
code raised `UnboundLocalError` for them. -/
def jsonSection (r : α → α) (scheme : Scheme) (d : Detail α) : List (Leaf α) :=
  let ff : List (Leaf α) × List (Leaf α) × List (Leaf α) × List (Leaf α) :=
    match d.fixFlex with
    | none => ([.info, .info], [.info, .info], [.info, .info], [.info, .info])
    | some f => ([.num f.commodityYearFix, .num f.commodityYearFlex],
                 [.num f.capacityFix, .num f.capacityFlex],
                 [.num f.commoditySimFix, .num f.commoditySimFlex],
                 [.num f.capacityFix, .num f.capacityFlex])
  let capKey : String :=
    if (scheme.isFixed ∨ scheme.isVariable) ∧ d.feeType = .slp then "basic_costs"
    else "capacity_costs"
  let cy := r d.commodityYear
  let cap := r d.capacity
  (match d.sigSheet with | some s => [Leaf.num s] | none => [])
  ++ [.num (r d.totalYear), .num (r (cy + cap)), .num cy] ++ ff.1
  ++ [.num cap] ++ ff.2.1
  ++ [.num (r d.additionalYear), .num (r d.procurementYear),
      .num (r d.eegYear), .num (r d.chpYear), .num (r d.indYear), .num (r d.offYear),
      .num (r d.intYear), .num (r d.concessionYear), .num (r d.vatYear), .num (r d.taxYear),
      .num (r d.pvYear), .num (r d.v2gYear), .num (r d.batYear)]
  ++ [.num (r d.totalSim), .num (r (d.commoditySim + cap)), .num (r d.commoditySim)] ++ ff.2.2.1
  ++ [.key capKey, .num (r cap)] ++ ff.2.2.2
  ++ [.num (r d.additionalSim), .num (r d.procurementSim),
      .num (r d.eegSim), .num (r d.chpSim), .num (r d.indSim), .num (r d.offSim),
      .num (r d.intSim), .num (r d.concessionSim), .num (r d.vatSim), .num (r d.taxSim),
      .num (r d.pvSim), .num (r d.v2gSim), .num (r d.batSim)]

/-- `calculate_costs` -/
def calculateCosts (r : α → α) (inp : Input α) : Py (Result α) := do
  let d ← calculateCostsRaw inp
  .ok (roundResult r d)

/-- `simulate.py` (lines 74-86) and `calculate_costs.read_simulation_csv`: grid supply for the
fixed load = `max(fixed + min(generation, 0) + min(battery, 0) + min(cs_sum, 0), 0)` per step
(a series that is absent counts as zeros). -/
def fixedLoadSupply : List α → List α → List α → List α → List α
  | f :: fs, g :: gs, b :: bs, c :: cs =>
    pymax (f + pymin g 0 + pymin b 0 + pymin c 0) 0 :: fixedLoadSupply fs gs bs cs
  | _, _, _, _ => []

end

/-! ### `round(x, 2)` on exact rationals (`Fraction.__round__`): round half to even -/

/-- `round(x)` for a `Fraction`: floor, then compare twice the remainder with the denominator -/
def roundHalfEven (x : Rat) : Int :=
  let fl := x.floor
  let rem : Rat := x - (fl : Rat)
  if rem < 1 / 2 then fl
  else if 1 / 2 < rem then fl + 1
  else if fl % 2 = 0 then fl else fl + 1

/-- `round(x, 2)` = `Fraction(round(x * 100), 100)` -/
def pyRound2 (x : Rat) : Rat := (roundHalfEven (x * 100) : Rat) / 100


end SpiceEv.Costs
