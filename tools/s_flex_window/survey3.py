"""validate the mechanism predicates of notes/S_FLEX_WINDOW.md on real runs"""
import sys, os, collections
os.environ.setdefault("VERIF_REPO", "/repo")
sys.path.insert(0, os.path.join(os.path.dirname(os.path.abspath(__file__)), "..", "..", "harness"))
import warnings; warnings.simplefilter("ignore")
import engine, scen, s_flex_window as S
from spice_ev import strategy as st_mod
cls = st_mod.class_from_str("flex_window")
EPS = 1e-5
hits = collections.Counter(); ex = {}
cur = {}
orig = cls.step
def step(self):
    ws = self.world_state
    gc = list(ws.grid_connectors.values())[0]
    L0 = gc.get_current_load(); M = gc.cur_max_power
    F0 = gc.get_avg_fixed_load(self.current_time, self.interval) - sum(-v for v in gc.current_loads.values() if v < 0)
    res = orig(self)
    win = gc.window; Sx = self.LOAD_STRAT
    cmd = res["commands"]; bat = {b: gc.current_loads.get(b, 0) for b in ws.batteries}
    L1 = gc.get_current_load()
    v2g = {v.connected_charging_station: v.vehicle_type.v2g for v in ws.vehicles.values() if v.connected_charging_station}
    if not (-M - EPS <= L0 <= M + EPS):
        return res
    def rec(kind, matched):
        key = (kind, Sx, "win=%s" % win, tuple(sorted(matched)) or ("UNMATCHED",)); hits[key] += 1
        ex.setdefault(key, (cur["case"], str(self.current_time), L0, F0, L1, M))
    if L1 > M + EPS:
        m = []
        pos = [c for c in cmd.values() if c > EPS]
        if Sx == "greedy" and len(pos) >= 2 and max(pos) <= M - L0 + EPS and L0 + sum(cmd.values()) > M + EPS: m.append("dv1")
        if Sx != "balanced" and win and any(v2g.get(c) and p > EPS for c, p in cmd.items()) and L0 > F0 + EPS: m.append("dv2")
        if Sx != "balanced" and win and sum(bat.values()) > EPS and L0 > F0 + EPS: m.append("db")
        rec("draw", m)
    if L1 < -M - EPS:
        m = []
        if Sx == "balanced" and not win and any(p < -EPS for p in cmd.values()) and any(p < -EPS for p in bat.values()): m.append("fb3a")
        if Sx != "balanced" and not win and sum(bat.values()) < -EPS and L0 < F0 - EPS: m.append("fb3b")
        if Sx != "balanced" and not win and any(p < -EPS for p in cmd.values()) and L0 < F0 - EPS: m.append("fv")
        rec("feedin", m)
    for cid, cs in ws.charging_stations.items():
        p = gc.current_loads.get(cid, 0)
        if p > cs.max_power + EPS:
            rec("station+", ["sc"] if (Sx != "balanced" and win and v2g.get(cid)) else [])
        if p < -cs.max_power - EPS:
            rec("station-", ["sd"] if (Sx != "balanced" and not win and v2g.get(cid)) else [])
    return res
cls.step = step
seeds = [int(x) for x in sys.argv[1].split(",")]; n = int(sys.argv[2])
for seed in seeds:
    for i in range(n):
        cur["case"] = (seed, i)
        scen.run_real(S.gen_full({"seed": seed, "i": i}), timeout_s=300, collect_ops=False)
for k, v in sorted(hits.items()): print(v, k, ex[k])
print('runs', len(seeds) * n, 'exceedances', sum(hits.values()), 'unmatched', sum(v for k, v in hits.items() if k[3] == ('UNMATCHED',)))
