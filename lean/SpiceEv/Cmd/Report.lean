/- driver commands for Model/Report.lean (exact rationals; a float is sent as its bit pattern
`x<16 hex>` and converted to the exact rational it denotes) -/
import SpiceEv.Wire
import SpiceEv.Model.Report
namespace SpiceEv.Cmd.Report
open SpiceEv SpiceEv.Report

/-- exact value of an IEEE-754 double given by its bits (none for inf/nan) -/
def floatBitsToRat (bits : Nat) : Option Rat :=
  let sign := bits >>> 63
  let e := (bits >>> 52) % 2048
  let m := bits % 2 ^ 52
  if e == 2047 then none
  else
    let mant : Nat := if e == 0 then m else m + 2 ^ 52
    let ex : Int := if e == 0 then -1074 else (e : Int) - 1075
    let v : Rat := if ex ≥ 0 then ((mant * 2 ^ ex.toNat : Nat) : Rat) else mkRat mant (2 ^ (-ex).toNat)
    some (if sign == 1 then -v else v)

/-- number token: `x<hex>` (double, exact value) or `n/d` or `n` -/
def pNum : P Rat := do
  let t ← P.tok
  if t.startsWith "x" then
    match parseHex? (t.drop 1).toString with
    | some n => match floatBitsToRat n with
      | some q => pure q
      | none => failure
    | none => failure
  else match parseRat? t with
    | some q => pure q
    | none => failure

/-- string token `s:<text>` (text without whitespace, may be empty) -/
def pStr : P String := do
  let t ← P.tok
  if t.startsWith "s:" then pure (t.drop 2).toString else failure

def pKV : P (String × Rat) := do let k ← pStr; let v ← pNum; pure (k, v)

def rNum (q : Rat) : String := Wire.render q

def rCell : Cell Rat → String
  | .int n => s!"i{n}"
  | .num x => "n" ++ rNum x
  | .raw x => "r" ++ rNum x
  | .time us => s!"t{us}"
  | .bool b => if b then "b1" else "b0"
  | .none => "N"

def rOptNum : Option Rat → String
  | none => "N" | some x => rNum x
def rListNum (l : List Rat) : String := "[" ++ ";".intercalate (l.map rNum) ++ "]"
def rOptList : Option (List Rat) → String
  | none => "N" | some l => rListNum l

/-- `report_split q <places> grid generation cs_sum` → `rounded… | raw…` -/
def cmdSplit : P String := do
  let places ← P.nat
  let g ← pNum; let gen ← pNum; let cs ← pNum
  let r := splitFeedin (pyRoundRat places) g gen cs
  let p := splitFeedinRaw g gen cs
  pure (" ".intercalate (r.map rNum) ++ " | " ++ " ".intercalate ([p.1, p.2.1, p.2.2].map rNum))

/-- `report_round q <places> x` -/
def cmdRound : P String := do
  let places ← P.nat
  let x ← pNum
  pure (rNum (pyRoundRat places x))

def pStep : P (StepData Rat) := do
  let time ← P.int
  let commands ← P.list pKV
  let price ← pNum
  let totalLoad ← pNum
  let fixedLoads ← P.list pKV
  let localGen ← pNum
  let schedule ← P.opt pNum
  let window ← P.opt P.bool
  let connCharge ← P.list pKV
  let socs ← P.list (P.opt pNum)
  let disconnect ← P.list (P.opt pNum)
  let connected ← P.list (do let a ← pStr; let b ← pStr; pure (a, b))
  pure { time, commands, price, totalLoad, fixedLoads, localGen, schedule, window, connCharge,
         socs, disconnect, connected }

def pFlex : P (Flex Rat) := do
  let t ← P.tok
  if t == "K" then pure .skipped
  else if t == "F" then pure .failed
  else if t == "B" then do
    let mn ← P.list pNum; let base ← P.list pNum; let mx ← P.list pNum
    let ivs ← P.list (do let a ← pNum; let b ← P.nat; pure (a, b))
    pure (.band mn base mx ivs)
  else failure

def pRun : P (RunData Rat) := do
  let gcId ← pStr
  let gcIds ← P.list pStr
  let stations ← P.list (do let a ← pStr; let b ← pStr; pure (a, b))
  let vehicles ← P.list (do let a ← pStr; let c ← pNum; let v ← P.bool; pure (a, c, v))
  let batteries ← P.list (do let a ← pStr; let p ← pStr; let c ← pNum; pure (a, p, c))
  let batteryLevels ← P.list (do let a ← pStr; let l ← P.list pNum; pure (a, l))
  let fixedLoadKeys ← P.list pStr
  let localGenKeys ← P.list pStr
  let flex ← pFlex
  let stepsPerHour ← pNum
  let startLocal ← P.int
  let interval ← P.int
  let isPlw ← P.bool
  let peakPower ← pNum
  let steps ← P.list pStep
  pure { gcId, gcIds, steps, stations, vehicles, batteries, batteryLevels, fixedLoadKeys,
         localGenKeys, flex, stepsPerHour, startLocal, interval, isPlw, peakPower }

def rTimeseries (t : List String × List (List (Cell Rat))) : String :=
  ",".intercalate t.1 ++ ";" ++ ";".intercalate (t.2.map (fun r => ",".intercalate (r.map rCell)))

def rSoc (l : List (String × List (Option Rat))) : String :=
  ";".intercalate (l.map (fun p => p.1 ++ ":" ++ ",".intercalate (p.2.map rOptNum)))

def rLocal (r : LocalResults Rat) : String :=
  let t3 (o : Option (Rat × Rat × Rat)) : String :=
    match o with | none => "N" | some (a, b, c) => rListNum [a, b, c]
  " ".intercalate [
    "avgFlex=" ++ rOptList r.avgFlexPerWindow,
    "sumEnergy=" ++ rNum r.sumEnergy,
    "sumEnergyWin=" ++ rListNum r.sumEnergyPerWindow,
    "standSingle=" ++ rNum r.avgStandSingle,
    "standTotal=" ++ rNum r.avgStandTotal,
    "percStand=" ++ rListNum r.percStandWindow,
    "needed=" ++ rOptNum r.avgNeededEnergy,
    "plw=" ++ rOptNum r.plwThreshold,
    "peaks=" ++ t3 r.powerPeaks,
    "avgDrawn=" ++ rNum r.avgDrawn,
    "genEnergy=" ++ rNum r.localGenEnergy,
    "feedIn=" ++ t3 r.feedIn,
    "maxStored=" ++ (match r.maxStored with
      | none => "N"
      | some l => "[" ++ ";".intercalate (l.map (fun p => p.1 ++ ":" ++ rNum p.2)) ++ "]"),
    "batCycles=" ++ rOptNum r.batCycles,
    "vehCycles=" ++ rNum r.vehicleCycles,
    "vehCap=" ++ rNum r.vehicleCap,
    "vehEnergy=" ++ rNum r.vehicleEnergy]

def rRead (l : List (ReadRow Rat)) : String :=
  ";".intercalate (l.map (fun r => ",".intercalate [
    rCell r.time, rNum r.price, rNum r.gridSupply, rNum r.fixLoad, rNum r.genFeedIn,
    rNum r.v2gFeedIn, rNum r.batFeedIn,
    (match r.window with | none => "N" | some b => renderBool b),
    (match r.schedule with | none => "-" | some none => "N" | some (some x) => rNum x)]))

/-- `report q <places> <hasTs> <RunData>` →
    `timeseries || soc series || local results || read-back of the model's own rows || windows` -/
def cmdReport : P String := do
  let places ← P.nat
  let hasTs ← P.bool
  let R ← pRun
  let rnd := pyRoundRat places
  let ts := aggregateTimeseries rnd R
  let soc := socSeries R
  let tsOpt : Py (Option (List String × List (List (Cell Rat)))) :=
    if hasTs then ts.map some else .ok none
  let loc := tsOpt.bind (fun t => aggregateLocal R t)
  let rd := ts.bind (fun t => readSimulation t.1 t.2)
  let win := " ".intercalate ((List.range R.steps.length).map
    (fun i => toString (windowIndex R.startLocal R.interval i)))
  pure (renderPy rTimeseries ts ++ " || " ++ renderPy rSoc soc ++ " || " ++ renderPy rLocal loc
        ++ " || " ++ renderPy rRead rd ++ " || " ++ win)

/-- `report_global q <nGc> totalLoad lists… <stations> <steps: commands> <nGc> <per gc: steps: fixedLoads>` →
    `all_totalLoad | sum_cs | loads per gc` -/
def cmdGlobal : P String := do
  let loads ← P.list (P.list pNum)
  let stationIds ← P.list pStr
  let commands ← P.list (P.list pKV)
  let fixed ← P.list (P.list (P.list pKV))
  let atl := allTotalLoad loads
  let sc := sumCs stationIds commands
  let un := fixed.map untangleLoads
  let rUn (u : List (String × List Rat)) : String :=
    "{" ++ ";".intercalate (u.map (fun p => p.1 ++ ":" ++ rListNum p.2)) ++ "}"
  pure (rListNum atl ++ " | " ++ ";".intercalate (sc.map rListNum) ++ " | "
        ++ " ".intercalate (un.map rUn))

def qOnly (p : P String) : Handler
  | "q" :: rest => runP p rest
  | _ => none

def handlers : List (String × Handler) :=
  [("report_split", qOnly cmdSplit), ("report_round", qOnly cmdRound), ("report", qOnly cmdReport),
   ("report_global", qOnly cmdGlobal)]

end SpiceEv.Cmd.Report
