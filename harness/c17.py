"""C17 — every simulation terminates and fails loudly."""
import runcheck
import runoracle

PID = "C17"
CHUNK = 4
RULE = ("scenarios from the grammar in harness/scen.py (15 % with infeasible trips), every strategy, one third of the "
        "runs with a fault injected into the strategy step at a random timestep; watchdog per run; "
        "non-trivial = the run reported at least one step; distinct = distinct (seed, index, strategy)")
ASSUMPTIONS = ["'bounded time' is judged by a 90 s watchdog per run (wall-clock is not a theorem)"]
UNPROVED = ["termination of the strategies' internal while-loops (bisection, retry queues) is observed by the "
            "watchdog, not proved"]
compare = runcheck.compare


def gen_cases(tier, seed):
    return runcheck.gen_cases_for(PID, tier, seed, per_strategy_quick=250, per_strategy_thorough=2500, fault=True)


def eval_case(case):
    return runcheck.eval_run(case, [runoracle.check_c17])
