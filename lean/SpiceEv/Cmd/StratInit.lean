/- driver commands for Model/StratInit.lean (strategy constructors; Float numbers, everything else integers / tokens)

wire formats
  base     `<CONCURRENCY: N | S num> <margin: N | S num> <PRICE_THRESHOLD: N | S num> <EPS: N | S num>
            <ALLOW_NEGATIVE_SOC: N | S bool> <RESET_NEGATIVE_SOC: N | S bool> <#stations> {id max_power}
            <start dt> <interval µs>`
  datestr  `D y m d | B <N | S int>`          timestr  `T h m s us | B`
  seasonJ  `<name> <start: N | S datestr> <end: N | S datestr> <windows: N | S <#levels> {level <#w> {timestr timestr}}>`
  levent   `<signal µs> <start µs> <G gc name value | L gc name value | S gc <N | S max_power>>`

`init_base <base>`                                                       → `<base state>`
`init_plw <base> <stop µs> <file: N | S <#ops> {op <#seasons> seasonJ…}> <#gcs> {id <level: N | S tok> <operator: N | S tok> <#loads> {k v}}
          <#signals> levent… <#load lists> {<#events> levent…} <#generation lists> {…} <#vehicle events> {A <N | S etd> | D start | O}`
     → `<base state> | <#ops> {op <#seasons> {name season}} | <#gcs> {id level operator} | <#signals> times | changed |
        <#timesteps> {<#events> levent…} | <#gcs> {id peak}`   or `!Error`
`init_schedule <base> <LOAD_STRAT: N | S tok> <ITERATIONS: N | S nat> <warn_core_standing_time: N | S bool> <#gcs> <core given: bool>`
     → `<base state> | LOAD_STRAT ITERATIONS in_core overcharge warn`   or `!Error`
`init_flex_window <base> <LOAD_STRAT: N | S tok> <HORIZON: N | S num> <#gcs>` → `<base state> | LOAD_STRAT HORIZON <sort key: N | S g|n|b>`
`init_market <base> <HORIZON: N | S num> <timedelta(hours=HORIZON) µs: N | S int> <#signals> {signal start}`
     → `<base state> | HORIZON | <#signals> times | changed`
`init_shaving <base> <timedelta(hours=HORIZON) µs: N | S int> <perfect_foresight: N | S bool> <scenario start µs, Unix epoch> <vehicle events> <signals>
          <n lists of fixed-load events> <n lists of generation events>` (events as in `init_peak_shaving`)
     → `<base state> | HORIZON µs perfect_foresight | changed | <N | S <n> (signal event)…>`
`init_shift <horizon µs> <scenario start µs> <#events> {signal start}` → the shifted signal times (balanced_market / peak_shaving)
`init_consts` → the defaults the models use, for the generated-constants stream
-/
import SpiceEv.Wire
import SpiceEv.Model.StratInit
import SpiceEv.Cmd.StratPeakLoadWindow
import SpiceEv.Cmd.StratPeakShaving
namespace SpiceEv.Cmd.StratInit
open SpiceEv SpiceEv.StratInit SpiceEv.PeakLoadWindow SpiceEv.Cmd.Strategies

/-- the literals `0.1` (margin) and `1e-5` (EPS) of `Strategy.__init__` -/
def consts : BaseConsts Float := { margin := 0.1, eps := 1e-5 }

def pBase : P (BaseOpts Float × List (String × Float) × DateTime × Int) := do
  let conc ← P.opt (P.num Float); let margin ← P.opt (P.num Float); let price ← P.opt (P.num Float)
  let eps ← P.opt (P.num Float); let allow ← P.opt P.bool; let reset ← P.opt P.bool
  let stations ← P.list (do let id ← P.tok; let m ← P.num Float; pure (id, m))
  let start ← Cmd.Util.pDateTime; let interval ← P.int
  pure ({ concurrency := conc, margin := margin, priceThreshold := price, eps := eps, allowNegativeSoc := allow,
          resetNegativeSoc := reset }, stations, start, interval)

def rDt (d : DateTime) : String := s!"{d.date} {d.time} {renderOpt (fun (o : Int) => toString o) d.offset}"

def rBase (b : BaseState Float) : String :=
  " ".intercalate [rDt b.now, rNum b.tsPerHour, renderList rKV b.stations, rNum b.margin, rNum b.priceThreshold,
    rNum b.eps, renderBool b.allowNegativeSoc, renderBool b.resetNegativeSoc, renderBool b.usesSchedule,
    renderBool b.usesWindow]

def pDateStr : P DateStr := do
  let t ← P.tok
  if t == "D" then do
    let y ← P.int; let m ← P.int; let d ← P.int; pure (.ymd y m d)
  else if t == "B" then do
    let y ← P.opt P.int; pure (.bad y)
  else failure

def pTimeStr : P TimeStr := do
  let t ← P.tok
  if t == "T" then do
    let h ← P.int; let m ← P.int; let s ← P.int; let us ← P.int; pure (.hms h m s us)
  else if t == "B" then pure .bad
  else failure

def pSeasonJ : P (String × SeasonJ) := do
  let name ← P.tok
  let a ← P.opt pDateStr; let b ← P.opt pDateStr
  let w ← P.opt (P.list (do
    let lvl ← P.tok
    let ws ← P.list (do let x ← pTimeStr; let y ← pTimeStr; pure (x, y))
    pure (lvl, ws)))
  pure (name, { start := a, stop := b, windows := w })

def pLEv : P (LEv Float) := do
  let sig ← P.int; let start ← P.int; let ev ← Cmd.StratPeakLoadWindow.pEv
  pure ⟨sig, start, ev⟩

def pVEv : P VEv := do
  let t ← P.tok
  if t == "A" then do let e ← P.opt P.int; pure (.arrival e)
  else if t == "D" then do let s ← P.int; pure (.departure s)
  else if t == "O" then pure .other
  else failure

def pGcIn : P (GcIn Float) := do
  let id ← P.tok; let lvl ← P.opt P.tok; let op ← P.opt P.tok
  let loads ← P.list (do let k ← P.tok; let v ← P.num Float; pure (k, v))
  pure ⟨id, lvl, op, loads⟩

def rSeason (s : Season) : String :=
  s!"{s.start} {s.stop} " ++ renderOpt (renderList (fun (l : String × List (Int × Int)) =>
    l.1 ++ " " ++ renderList (fun (w : Int × Int) => s!"{w.1} {w.2}") l.2)) s.windows

def rWindows (w : List (String × List (String × Season))) : String :=
  renderList (fun (op : String × List (String × Season)) =>
    op.1 ++ " " ++ renderList (fun (s : String × Season) => s.1 ++ " " ++ rSeason s.2) op.2) w

def rEv : Ev Float → String
  | .gen g n v => s!"G {g} {n} {rNum v}"
  | .load g n v => s!"L {g} {n} {rNum v}"
  | .signal g m => s!"S {g} {renderOpt rNum m}"

def rLEv (e : LEv Float) : String := s!"{e.signal} {e.start} {rEv e.ev}"

def rGcIn (g : GcIn Float) : String :=
  g.id ++ " " ++ renderOpt id g.level ++ " " ++ renderOpt id g.operator

def cmdBase : P String := do
  let (o, stations, start, interval) ← pBase
  pure (renderPy rBase (baseInit consts o start interval stations))

def cmdPlw : P String := do
  let (o, stations, start, interval) ← pBase
  let stop ← P.int
  let file ← P.opt (P.list (do let op ← P.tok; let ss ← P.list pSeasonJ; pure (op, ss)))
  let gcs ← P.list pGcIn
  let signals ← P.list pLEv
  let loadLists ← P.list (P.list pLEv)
  let genLists ← P.list (P.list pLEv)
  let ves ← P.list pVEv
  let inp : PlwIn Float := { start, interval, stop, file, gcs, signals, loadLists, genLists, vehicleEvents := ves,
                             sum := floatSum }
  pure (renderPy (fun (s : PlwState Float) =>
    " | ".intercalate [rBase s.base, rWindows s.windows, renderList rGcIn s.gcs,
      renderList (fun (t : Int) => toString t) s.signalTimes, toString s.changed,
      renderList (renderList rLEv) s.table, renderList rKV s.peaks]) (plwInit consts o stations inp))

def cmdSchedule : P String := do
  let (o, stations, start, interval) ← pBase
  let ls ← P.opt P.tok; let it ← P.opt P.nat; let warn ← P.opt P.bool; let nGcs ← P.nat; let hasCore ← P.bool
  pure (renderPy (fun (s : ScheduleState Float) =>
    rBase s.base ++ s!" | {s.loadStrat} {s.iterations} {renderBool s.inCore} {renderBool s.overcharge} {renderBool s.warnCore}")
    (scheduleInit consts o start interval stations ls it warn nGcs hasCore))

def rSort : FlexSort → String
  | .greedy => "g" | .needy => "n" | .balanced => "b"

def cmdFlex : P String := do
  let (o, stations, start, interval) ← pBase
  let ls ← P.opt P.tok; let hz ← P.opt (P.num Float); let nGcs ← P.nat
  pure (renderPy (fun (s : FlexState Float) =>
    rBase s.base ++ s!" | {s.loadStrat} {rNum s.horizonHours} {renderOpt rSort s.sortKey}")
    (flexWindowInit consts o start interval stations ls hz nGcs))

def cmdMarket : P String := do
  let (o, stations, start, interval) ← pBase
  let hz ← P.opt (P.num Float); let hzUs ← P.opt P.int
  let sigs ← P.list (do let a ← P.int; let b ← P.int; pure (a, b))
  pure (renderPy (fun (s : MarketState Float) =>
    " | ".intercalate [rBase s.base, rNum s.horizonHours, renderList (fun (t : Int) => toString t) s.signalTimes,
      toString s.changed]) (marketInit consts o start interval stations hz hzUs sigs))

def cmdShaving : P String := do
  let (o, stations, start, interval) ← pBase
  let hzUs ← P.opt P.int; let pf ← P.opt P.bool; let t0 ← P.int
  let ves ← P.list PeakShaving.Cmd.pSig; let sigs ← P.list PeakShaving.Cmd.pSig
  let loads ← P.list (P.list PeakShaving.Cmd.pSig); let gens ← P.list (P.list PeakShaving.Cmd.pSig)
  pure (renderPy (fun (s : ShavingState Float) =>
    " | ".intercalate [rBase s.base, s!"{s.horizonUs} {renderBool s.perfectForesight}", toString s.changed,
      renderOpt (renderList (fun (e : PeakShaving.Signalled Float) => toString e.signal ++ " " ++ PeakShaving.Cmd.rEv e.ev))
        s.events]) (peakShavingInit consts o start interval stations hzUs pf t0 ves sigs loads gens))

def cmdShift : P String := do
  let horizon ← P.int; let t0 ← P.int
  let evs ← P.list (do let a ← P.int; let b ← P.int; pure (a, b))
  pure (renderList (fun (e : Int × Int) => toString (horizonShift e.1 e.2 horizon t0)) evs)

/-- the defaults of the constructors as the models hold them (all evaluated through the model functions on an
option-free input, so a changed default in a model shows here) -/
def cmdConsts : P String := do
  let start : DateTime := DateTime.ofParts 737425 0 (some 0)
  let o : BaseOpts Float := {}
  let b := renderPy (fun (b : BaseState Float) =>
    s!"margin {rNum b.margin} PRICE_THRESHOLD {rNum b.priceThreshold} EPS {rNum b.eps} ALLOW_NEGATIVE_SOC {renderBool b.allowNegativeSoc} RESET_NEGATIVE_SOC {renderBool b.resetNegativeSoc} uses_schedule {renderBool b.usesSchedule} uses_window {renderBool b.usesWindow} CONCURRENCY {renderList rKV b.stations}")
    (baseInit consts o start 60000000 [("cs", 1.0)])
  let s := renderPy (fun (s : ScheduleState Float) =>
    s!"schedule.LOAD_STRAT {s.loadStrat} schedule.ITERATIONS {s.iterations} schedule.currently_in_core_standing_time {renderBool s.inCore} schedule.overcharge_necessary {renderBool s.overcharge} schedule.warn_core_standing_time {renderBool s.warnCore}")
    (scheduleInit consts o start 60000000 [] none none none 1 true)
  let f := renderPy (fun (s : FlexState Float) => s!"flex_window.LOAD_STRAT {s.loadStrat} flex_window.HORIZON {rNum s.horizonHours}")
    (flexWindowInit consts o start 60000000 [] none none 1)
  let m := renderPy (fun (s : MarketState Float) => s!"balanced_market.HORIZON {rNum s.horizonHours}")
    (marketInit consts o start 60000000 [] none none [])
  let ps := renderPy (fun (s : ShavingState Float) =>
    s!"peak_shaving.HORIZON_us {s.horizonUs} peak_shaving.perfect_foresight {renderBool s.perfectForesight}")
    (peakShavingInit consts o start 60000000 [] none none 0 [] [] [] [])
  let mv := match (gcDefaults (α := Float) none ⟨"g", none, none, []⟩).level with | some l => l | none => "N"
  pure (" ".intercalate [b, s, f, m, ps, "peak_load_window.voltage_level", mv])

def handlers : List (String × Handler) :=
  [("init_base", runP cmdBase), ("init_plw", runP cmdPlw), ("init_schedule", runP cmdSchedule),
   ("init_flex_window", runP cmdFlex), ("init_market", runP cmdMarket), ("init_shaving", runP cmdShaving), ("init_shift", runP cmdShift), ("init_consts", runP cmdConsts)]

end SpiceEv.Cmd.StratInit
