/-
C07 — frame of the concrete strategies' own step with respect to the state that events set.

Core definitions and generic lemmas; the greedy / balanced step (`ruleStep`).  The other strategy models are in
`Proofs/C07Keeps<Model>.lean`.  Purely structural (no arithmetic): everything holds for every number type the models run
on (`Rat`, `Float`, ℝ), so no algebraic instance is assumed.

Vocabulary (`S : String → Bool` = the names a step may write load entries under: charging stations, stationary batteries)
* `restLoads S g`   the entries of `g.loads` whose name is outside `S`, in order (fixed loads, generation)
* `gcKey S g = (g.id, g.curMax, g.cost, restLoads S g)`   the event-set state a `GcS` carries
* `GcKeeps S gcs gcs'`  same ids in the same order, and every record of `gcs'` carries the key of a record of `gcs`
  (with distinct ids: `gcs'.map (gcKey S) = gcs.map (gcKey S)`, lemma `GcKeeps.map_key`)
* `Inv S gcs0 w`   the invariant threaded through a step: `GcKeeps S gcs0 w.gcs`, and every station / battery id of `w`
  is in `S`.  With `S = fun _ => true` this is the frame of ids, limits and costs alone.
-/
import SpiceEv.Model.Strategies
import SpiceEv.Model.StratPeakLoadWindow
import Mathlib.Data.List.Basic
import Mathlib.Data.List.Nodup
set_option linter.unusedSectionVars false
set_option linter.unusedSimpArgs false
set_option linter.unusedVariables false
namespace SpiceEv
namespace Keeps

variable {α B : Type}

/-- the entries whose name is outside `S` -/
def restLoads (S : String → Bool) (g : GcS α) : List (String × α) := g.loads.filter (fun kv => !S kv.1)

/-- the event-set state carried by the strategy models' connector record -/
def gcKey (S : String → Bool) (g : GcS α) : String × α × Option (GcCost α) × List (String × α) :=
  (g.id, g.curMax, g.cost, restLoads S g)

/-- the step's frame on the connector list: ids (and order) unchanged, every record carries id, limit, cost and
non-station entries of a record before the step -/
structure GcKeeps (S : String → Bool) (gcs gcs' : List (GcS α)) : Prop where
  ids : gcs'.map (·.id) = gcs.map (·.id)
  attrs : ∀ g ∈ gcs', gcKey S g ∈ gcs.map (gcKey S)

theorem GcKeeps.refl (S : String → Bool) (gcs : List (GcS α)) : GcKeeps S gcs gcs :=
  ⟨rfl, fun g hg => List.mem_map.mpr ⟨g, hg, rfl⟩⟩

theorem GcKeeps.trans {S : String → Bool} {a b c : List (GcS α)} (h1 : GcKeeps S a b) (h2 : GcKeeps S b c) :
    GcKeeps S a c := by
  refine ⟨h2.ids.trans h1.ids, fun g hg => ?_⟩
  obtain ⟨g1, hg1, hk⟩ := List.mem_map.mp (h2.attrs g hg)
  rw [← hk]; exact h1.attrs g1 hg1

theorem inj_of_nodup_ids : ∀ (l : List (GcS α)), (l.map (·.id)).Nodup → ∀ a ∈ l, ∀ b ∈ l, a.id = b.id → a = b := by
  intro l
  induction l with
  | nil => intro _ a ha; cases ha
  | cons x xs ih =>
    intro hn a ha b hb hab
    simp only [List.map_cons, List.nodup_cons, List.mem_map, not_exists, not_and] at hn
    rcases List.mem_cons.mp ha with rfl | ha' <;> rcases List.mem_cons.mp hb with rfl | hb'
    · rfl
    · exact absurd hab.symm (hn.1 b hb')
    · exact absurd hab (hn.1 a ha')
    · exact ih hn.2 a ha' b hb' hab

/-- with distinct connector ids the frame is the pointwise statement: limit, cost and non-station entries of every
connector are unchanged -/
theorem GcKeeps.map_key {S : String → Bool} {gcs gcs' : List (GcS α)} (h : GcKeeps S gcs gcs')
    (hnd : (gcs.map (·.id)).Nodup) : gcs'.map (gcKey S) = gcs.map (gcKey S) := by
  obtain ⟨hids, hattr⟩ := h
  have key : ∀ (l l' : List (GcS α)), l'.map (·.id) = l.map (·.id) →
      (∀ g' ∈ l', ∀ g ∈ l, g'.id = g.id → gcKey S g' = gcKey S g) → l'.map (gcKey S) = l.map (gcKey S) := by
    intro l
    induction l with
    | nil => intro l' h _; cases l' <;> simp_all
    | cons x xs ih =>
      intro l' h hp
      cases l' with
      | nil => simp at h
      | cons y ys =>
        simp only [List.map_cons, List.cons.injEq] at h ⊢
        refine ⟨hp y (by simp) x (by simp) h.1, ih ys h.2 ?_⟩
        intro g' hg' g hg; exact hp g' (by simp [hg']) g (by simp [hg])
  apply key _ _ hids
  intro g' hg' g hg hid
  obtain ⟨g1, hg1, hk⟩ := List.mem_map.mp (hattr g' hg')
  have hid1 : g1.id = g.id := by
    have : g1.id = g'.id := by
      have := congrArg Prod.fst hk; simpa [gcKey] using this
    rw [this, hid]
  have : g1 = g := inj_of_nodup_ids gcs hnd g1 hg1 g hg hid1
  rw [← hk, this]

/-! ### the primitive updates -/

theorem sdSet_filter_out' {β : Type} (q : String → Bool) (l : List (String × β)) (k : String) (v : β)
    (hk : q k = true) (hin : (sdGet l k).isSome) :
    (sdSet l k v).filter (fun kv => !q kv.1) = l.filter (fun kv => !q kv.1) := by
  induction l with
  | nil => simp [sdGet] at hin
  | cons x xs ih =>
    obtain ⟨k', v'⟩ := x
    simp only [sdSet, sdGet] at hin ⊢
    by_cases hkk : (k' == k) = true
    · have : k' = k := beq_iff_eq.mp hkk
      subst this
      simp [hkk, List.filter_cons, hk]
    · simp only [hkk] at hin ⊢
      simp only [Bool.false_eq_true, if_false, List.filter_cons]
      rw [ih hin]

theorem restLoads_addLoad [Add α] (S : String → Bool) (g : GcS α) (k : String) (v : α) (hk : S k = true) :
    restLoads S (g.addLoad k v).1 = restLoads S g := by
  unfold GcS.addLoad restLoads
  split
  · rename_i old h
    exact sdSet_filter_out' S g.loads k (old + v) hk (by rw [h]; rfl)
  · simp [List.filter_append, hk]

/-- `gc.add_load(k, v)` under a station / battery name keeps the key -/
theorem gcKey_addLoad [Add α] (S : String → Bool) (g : GcS α) (k : String) (v : α) (hk : S k = true) :
    gcKey S (g.addLoad k v).1 = gcKey S g := by
  have h1 := restLoads_addLoad S g k v hk
  unfold gcKey; rw [h1]
  unfold GcS.addLoad; split <;> rfl

theorem mem_of_find? {β : Type} {p : β → Bool} {l : List β} {a : β} (h : l.find? p = some a) : a ∈ l :=
  List.mem_of_find?_eq_some h

theorem id_of_find? {β : Type} {idf : β → String} {l : List β} {a : β} {k : String}
    (h : l.find? (fun x => idf x == k) = some a) : idf a = k := by
  have := List.find?_some h; exact beq_iff_eq.mp this

theorem ids_setGc_list (gcs : List (GcS α)) (g' : GcS α) :
    (gcs.map (fun x => if x.id == g'.id then g' else x)).map (·.id) = gcs.map (·.id) := by
  rw [List.map_map]
  apply List.map_congr_left
  intro x _
  simp only [Function.comp]
  split
  · rename_i h; exact (beq_iff_eq.mp h).symm
  · rfl

/-- the invariant threaded through a step, relative to the connector list `gcs0` before the step -/
structure Inv (S : String → Bool) (gcs0 : List (GcS α)) (w : SWorld α B) : Prop where
  keeps : GcKeeps S gcs0 w.gcs
  st : ∀ s ∈ w.stations, S s.id = true
  bat : ∀ b ∈ w.batteries, S b.id = true

/-- the set of names of `Inv` for a world: ids of its charging stations and stationary batteries -/
def sbName (w : SWorld α B) : String → Bool :=
  fun k => (w.stations.any (·.id == k)) || (w.batteries.any (·.id == k))

theorem Inv.init (w : SWorld α B) : Inv (sbName w) w.gcs w := by
  refine ⟨GcKeeps.refl _ _, fun s hs => ?_, fun b hb => ?_⟩
  · unfold sbName; rw [Bool.or_eq_true]; left
    exact List.any_eq_true.mpr ⟨s, hs, beq_self_eq_true _⟩
  · unfold sbName; rw [Bool.or_eq_true]; right
    exact List.any_eq_true.mpr ⟨b, hb, beq_self_eq_true _⟩

/-- the frame of ids, limits and costs alone -/
theorem Inv.initTrue (w : SWorld α B) : Inv (fun _ => true) w.gcs w :=
  ⟨GcKeeps.refl _ _, fun _ _ => rfl, fun _ _ => rfl⟩

variable {S : String → Bool} {gcs0 : List (GcS α)}

theorem Inv.setGc {w : SWorld α B} (h : Inv S gcs0 w) (g' : GcS α)
    (hk : gcKey S g' ∈ gcs0.map (gcKey S)) : Inv S gcs0 (w.setGc g') := by
  refine ⟨⟨(ids_setGc_list w.gcs g').trans h.keeps.ids, ?_⟩, h.st, h.bat⟩
  intro g hg
  obtain ⟨x, hx, rfl⟩ := List.mem_map.mp hg
  split
  · exact hk
  · exact h.keeps.attrs x hx

theorem Inv.key_of_mem {w : SWorld α B} (h : Inv S gcs0 w) {g : GcS α}
    (hg : g ∈ w.gcs) : gcKey S g ∈ gcs0.map (gcKey S) := h.keeps.attrs g hg

theorem Inv.key_of_gc? {w : SWorld α B} (h : Inv S gcs0 w) {id : String} {g : GcS α}
    (hg : w.gc? id = some g) : gcKey S g ∈ gcs0.map (gcKey S) :=
  h.key_of_mem (mem_of_find? hg)

/-- a record obtained from a connector of the world by `add_load` under a station / battery name -/
theorem Inv.key_addLoad [Add α] {w : SWorld α B} (h : Inv S gcs0 w) {g : GcS α} (hg : g ∈ w.gcs)
    (k : String) (v : α) (hk : S k = true) : gcKey S (g.addLoad k v).1 ∈ gcs0.map (gcKey S) := by
  rw [gcKey_addLoad S g k v hk]; exact h.key_of_mem hg

theorem Inv.S_of_station? {w : SWorld α B} (h : Inv S gcs0 w) {id : String} {cs : StationS α}
    (hs : w.station? id = some cs) : S id = true := by
  have h1 := h.st cs (mem_of_find? hs)
  have h2 : cs.id = id := id_of_find? (idf := fun (x : StationS α) => x.id) hs
  rw [← h2]; exact h1

theorem Inv.S_of_battery {w : SWorld α B} (h : Inv S gcs0 w) {b : StatBatS α B}
    (hb : b ∈ w.batteries) : S b.id = true := h.bat b hb

@[simp] theorem setVehicle_gcs (w : SWorld α B) (v : VehicleS α B) : (w.setVehicle v).gcs = w.gcs := rfl
@[simp] theorem setStation_gcs (w : SWorld α B) (s : StationS α) : (w.setStation s).gcs = w.gcs := rfl
@[simp] theorem setBattery_gcs (w : SWorld α B) (b : StatBatS α B) : (w.setBattery b).gcs = w.gcs := rfl
@[simp] theorem resetStations_gcs [OfNat α 0] (w : SWorld α B) : (resetStations w).gcs = w.gcs := rfl

theorem Inv.setVehicle {w : SWorld α B} (h : Inv S gcs0 w) (v : VehicleS α B) :
    Inv S gcs0 (w.setVehicle v) := ⟨h.keeps, h.st, h.bat⟩

/-- `setStation s'` where `s'` carries the id of a station of the world (e.g. `{ cs with currentPower := … }`) -/
theorem Inv.setStation {w : SWorld α B} (h : Inv S gcs0 w) (s' : StationS α) (hs : S s'.id = true) :
    Inv S gcs0 (w.setStation s') := by
  refine ⟨h.keeps, ?_, h.bat⟩
  intro s hm
  obtain ⟨x, hx, rfl⟩ := List.mem_map.mp hm
  split
  · exact hs
  · exact h.st x hx

theorem Inv.setBattery {w : SWorld α B} (h : Inv S gcs0 w) (b' : StatBatS α B) (hb : S b'.id = true) :
    Inv S gcs0 (w.setBattery b') := by
  refine ⟨h.keeps, h.st, ?_⟩
  intro b hm
  obtain ⟨x, hx, rfl⟩ := List.mem_map.mp hm
  split
  · exact hb
  · exact h.bat x hx

theorem Inv.resetStations [OfNat α 0] {w : SWorld α B} (h : Inv S gcs0 w) :
    Inv S gcs0 (resetStations w) := by
  refine ⟨h.keeps, ?_, h.bat⟩
  intro s hm
  obtain ⟨x, hx, rfl⟩ := List.mem_map.mp hm
  exact h.st x hx

/-- any world with the same connector list and (as sets) no new station / battery ids -/
theorem Inv.of_eq {w w' : SWorld α B} (h : Inv S gcs0 w) (hg : w'.gcs = w.gcs)
    (hs : ∀ s ∈ w'.stations, ∃ s0 ∈ w.stations, s0.id = s.id)
    (hb : ∀ b ∈ w'.batteries, ∃ b0 ∈ w.batteries, b0.id = b.id) : Inv S gcs0 w' := by
  refine ⟨by rw [hg]; exact h.keeps, ?_, ?_⟩
  · intro s hm; obtain ⟨s0, h0, he⟩ := hs s hm; rw [← he]; exact h.st s0 h0
  · intro b hm; obtain ⟨b0, h0, he⟩ := hb b hm; rw [← he]; exact h.bat b0 h0

/-- `foldlM` preserves an invariant of the accumulator -/
theorem foldlM_inv {σ ι ε : Type} (f : σ → ι → Except ε σ) (P : σ → Prop)
    (hf : ∀ s i s', P s → f s i = .ok s' → P s') :
    ∀ (l : List ι) (s s' : σ), P s → l.foldlM f s = .ok s' → P s' := by
  intro l
  induction l with
  | nil => intro s s' hs h; simp only [List.foldlM, pure, Except.pure] at h; cases h; exact hs
  | cons x xs ih =>
    intro s s' hs h
    simp only [List.foldlM, bind, Except.bind] at h
    split at h
    · cases h
    · rename_i s1 h1; exact ih s1 s' (hf s x s1 hs h1) h

/-- the same with membership of the element -/
theorem foldlM_inv_mem {σ ι ε : Type} (f : σ → ι → Except ε σ) (P : σ → Prop) :
    ∀ (l : List ι), (∀ s i s', i ∈ l → P s → f s i = .ok s' → P s') →
      ∀ (s s' : σ), P s → l.foldlM f s = .ok s' → P s' := by
  intro l
  induction l with
  | nil => intro _ s s' hs h; simp only [List.foldlM, pure, Except.pure] at h; cases h; exact hs
  | cons x xs ih =>
    intro hf s s' hs h
    simp only [List.foldlM, bind, Except.bind] at h
    split at h
    · cases h
    · rename_i s1 h1
      exact ih (fun s i s' hi => hf s i s' (List.mem_cons_of_mem _ hi)) s1 s' (hf s x s1 (by simp) hs h1) h

/-! ### greedy / balanced: `ruleStep` -/

section rule
variable [Add α] [Sub α] [Mul α] [Div α] [Neg α] [LT α] [LE α]
  [DecidableLT α] [DecidableLE α] [OfNat α 0] [OfNat α 1] [NatCast α] [IntCast α]

theorem surplusVehicle_keeps (ops : BatOps α B) (env : StratEnv α) (cheap : List (String × Bool))
    (w w' : SWorld α B) (cmds cmds' : List (String × α)) (v : VehicleS α B)
    (hi : Inv S gcs0 w) (h : surplusVehicle ops env cheap w cmds v = .ok (w', cmds')) : Inv S gcs0 w' := by
  unfold surplusVehicle at h
  split at h
  · cases h; exact hi
  · rename_i csId _
    split at h
    · cases h
    · rename_i cs hcs
      have hS : S csId = true := hi.S_of_station? hcs
      have hSid : S cs.id = true := hi.st cs (mem_of_find? hcs)
      split at h
      · cases h
      · rename_i gc hgc
        have hgm : gc ∈ w.gcs := mem_of_find? hgc
        dsimp only at h
        split at h
        · simp only [bind, Except.bind] at h
          split at h
          · cases h
          · rename_i r _
            obtain ⟨bat', avg⟩ := r
            simp only [Except.ok.injEq, Prod.mk.injEq] at h
            obtain ⟨rfl, -⟩ := h
            exact ((hi.setVehicle _).setGc _ (hi.key_addLoad hgm csId avg hS)).setStation _ hSid
        · split at h
          · simp only [bind, Except.bind] at h
            split at h
            · cases h
            · rename_i r _
              obtain ⟨bat', avg⟩ := r
              simp only [Except.ok.injEq, Prod.mk.injEq] at h
              obtain ⟨rfl, -⟩ := h
              exact ((hi.setVehicle _).setGc _ (hi.key_addLoad hgm csId (-avg) hS)).setStation _ hSid
          · cases h; exact hi

theorem distributeSurplus_keeps (ops : BatOps α B) (env : StratEnv α) (w w' : SWorld α B)
    (cmds' : List (String × α)) (hi : Inv S gcs0 w) (h : distributeSurplus ops env w = .ok (w', cmds')) :
    Inv S gcs0 w' := by
  unfold distributeSurplus at h
  simp only [bind, Except.bind] at h
  split at h
  · cases h
  · rename_i cheap _
    refine foldlM_inv _ (fun (st : SWorld α B × List (String × α)) => Inv S gcs0 st.1) ?_ w.vehicles (w, []) (w', cmds') hi h
    intro st v0 st' hst hf
    split at hf
    · cases hf; exact hst
    · exact surplusVehicle_keeps ops env cheap st.1 st'.1 st.2 st'.2 _ hst hf

theorem updateBattery_keeps (ops : BatOps α B) (env : StratEnv α) (cheap : List (String × Bool))
    (w w' : SWorld α B) (b : StatBatS α B) (hb : S b.id = true)
    (hi : Inv S gcs0 w) (h : updateBattery ops env cheap w b = .ok w') : Inv S gcs0 w' := by
  unfold updateBattery at h
  split at h
  · cases h; exact hi
  · rename_i gc hgc
    have hgm : gc ∈ w.gcs := mem_of_find? hgc
    simp only [bind, Except.bind] at h
    split at h
    · cases h
    · split at h
      · split at h
        · cases h
        · cases h
          exact Inv.setGc (Inv.setBattery hi _ (by exact hb)) _ (hi.key_addLoad hgm b.id _ hb)
      · split at h
        · split at h
          · cases h
          · cases h
            exact Inv.setGc (Inv.setBattery hi _ (by exact hb)) _ (hi.key_addLoad hgm b.id _ hb)
        · split at h
          · cases h
          · cases h
            exact Inv.setGc (Inv.setBattery hi _ (by exact hb)) _ (hi.key_addLoad hgm b.id _ hb)

theorem updateBatteries_keeps (ops : BatOps α B) (env : StratEnv α) (w w' : SWorld α B)
    (hi : Inv S gcs0 w) (h : updateBatteries ops env w = .ok w') : Inv S gcs0 w' := by
  unfold updateBatteries at h
  simp only [bind, Except.bind] at h
  split at h
  · cases h
  · rename_i cheap _
    refine foldlM_inv _ (fun (st : SWorld α B) => Inv S gcs0 st) ?_ w.batteries w w' hi h
    intro st b0 st' hst hf
    split at hf
    · cases hf; exact hst
    · rename_i b hb
      exact updateBattery_keeps ops env cheap st st' b (hst.S_of_battery (mem_of_find? hb)) hst hf

theorem allocVehicle_keeps (rule : Rule) (ops : BatOps α B) (env : StratEnv α)
    (st st' : SWorld α B × List (String × α) × List (String × α)) (vid : String)
    (hi : Inv S gcs0 st.1) (h : allocVehicle rule ops env st vid = .ok st') : Inv S gcs0 st'.1 := by
  unfold allocVehicle at h
  split at h
  · cases h
  · rename_i v _
    split at h
    · cases h; exact hi
    · rename_i csId _
      split at h
      · cases h
      · rename_i cs hcs
        have hS : S csId = true := hi.S_of_station? hcs
        have hSid : S cs.id = true := hi.st cs (mem_of_find? hcs)
        split at h
        · cases h
        · rename_i gc hgc
          have hgm : gc ∈ st.1.gcs := mem_of_find? hgc
          simp only [bind, Except.bind] at h
          split at h
          · cases h
          · split at h
            · cases h
            · split at h
              · cases h
              · cases h
                exact ((hi.setVehicle _).setGc _ (hi.key_addLoad hgm csId _ hS)).setStation _ hSid

/-- **greedy / balanced.**  The step keeps the invariant: ids, limits, costs and non-station entries of the connectors. -/
theorem ruleStep_inv (rule : Rule) (ops : BatOps α B) (env : StratEnv α) (w w' : SWorld α B)
    (cmds : List (String × α)) (hi : Inv S gcs0 w) (h : ruleStep rule ops env w = .ok (w', cmds)) :
    Inv S gcs0 w' := by
  unfold ruleStep at h
  simp only [bind, Except.bind] at h
  split at h
  · cases h
  · rename_i avail _
    split at h
    · cases h
    · rename_i r1 h1
      obtain ⟨w1, cmds1, av1⟩ := r1
      have i1 : Inv S gcs0 w1 :=
        foldlM_inv _ (fun (st : SWorld α B × List (String × α) × List (String × α)) => Inv S gcs0 st.1)
          (fun st vid st' hst hf => allocVehicle_keeps rule ops env st st' vid hst hf)
          _ _ _ hi.resetStations h1
      dsimp only at h
      split at h
      · cases h
      · rename_i r2 h2
        obtain ⟨w2, cmds2⟩ := r2
        have i2 := distributeSurplus_keeps ops env w1 w2 cmds2 i1 h2
        dsimp only at h
        split at h
        · cases h
        · rename_i w3 h3
          simp only [Except.ok.injEq, Prod.mk.injEq] at h
          obtain ⟨rfl, -⟩ := h
          exact updateBatteries_keeps ops env w2 _ i2 h3

theorem ruleStep_keeps (rule : Rule) (ops : BatOps α B) (env : StratEnv α) (w w' : SWorld α B)
    (cmds : List (String × α)) (h : ruleStep rule ops env w = .ok (w', cmds)) :
    GcKeeps (sbName w) w.gcs w'.gcs :=
  (ruleStep_inv rule ops env w w' cmds (Inv.init w) h).keeps

end rule

/-! ### peak_load_window has its own world type (`PWorld`: the shared `GcS` wrapped in `PGc`) -/

/-- the invariant on a `PWorld`: the wrapped `GcS` records satisfy `GcKeeps`, operator and voltage level of every
connector are those of a connector with the same id before the step (`ol0`), station / battery ids are in `S` -/
structure PInv (S : String → Bool) (gcs0 : List (GcS α)) (ol0 : List (String × String × Option String))
    (w : PeakLoadWindow.PWorld α B) : Prop where
  keeps : GcKeeps S gcs0 (w.gcs.map (·.gc))
  opLevel : ∀ g ∈ w.gcs, (g.gc.id, g.operator, g.level) ∈ ol0
  st : ∀ s ∈ w.stations, S s.id = true
  bat : ∀ b ∈ w.batteries, S b.id = true

end Keeps
end SpiceEv
