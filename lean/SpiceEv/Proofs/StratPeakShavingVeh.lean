/-
The vehicle pass of `peak_shaving` (forecast → ordering → `fast_charge` planning → surplus/apply pass) keeps the
connector within its limit when there is no generation surplus.  The argument: the first forecast entry is the
connector's present state; planning a vehicle standing now raises it by exactly what the vehicle's battery will take
(the first simulated `load` of `fast_charge` is the very call the apply pass repeats on the real battery), never
above the limit; predicted arrivals do not touch it (except in the "faulty" branch, which only reserves power).
-/
import SpiceEv.Proofs.StratPeakShaving
import Mathlib.Data.List.Perm.Basic
import Mathlib.Data.List.Nodup
set_option linter.unusedSectionVars false
set_option linter.unusedSimpArgs false
set_option linter.unusedVariables false
namespace SpiceEv.PeakShaving
open SpiceEv
variable {α B : Type} [Field α] [LinearOrder α] [IsStrictOrderedRing α]

/-! ### the stable insertion sort -/

theorem insertBy_perm {β : Type} (le : β → β → Bool) (x : β) (l : List β) : (insertBy le x l).Perm (x :: l) := by
  induction l with
  | nil => exact List.Perm.refl _
  | cons y ys ih =>
    unfold insertBy
    split
    · exact List.Perm.refl _
    · exact ((List.Perm.cons y ih).trans (List.Perm.swap x y ys))

theorem isort_perm {β : Type} (le : β → β → Bool) (l : List β) : (isort le l).Perm l := by
  induction l with
  | nil => exact List.Perm.refl _
  | cons x xs ih =>
    unfold isort
    exact (insertBy_perm le x _).trans (List.Perm.cons x ih)

theorem insertBy_pairwise {β : Type} (le : β → β → Bool)
    (htrans : ∀ a b c, le a b = true → le b c = true → le a c = true)
    (htotal : ∀ a b, le a b = true ∨ le b a = true) (x : β) (l : List β)
    (hl : l.Pairwise (fun a b => le a b = true)) : (insertBy le x l).Pairwise (fun a b => le a b = true) := by
  induction l with
  | nil => simp [insertBy]
  | cons y ys ih =>
    unfold insertBy
    have hy := List.pairwise_cons.mp hl
    split
    · rename_i hxy
      refine List.pairwise_cons.mpr ⟨?_, hl⟩
      intro z hz
      rcases List.mem_cons.mp hz with rfl | hz
      · exact hxy
      · exact htrans _ _ _ hxy (hy.1 z hz)
    · rename_i hxy
      have hyx : le y x = true := by
        rcases htotal x y with h | h
        · exact absurd h hxy
        · exact h
      refine List.pairwise_cons.mpr ⟨?_, ih hy.2⟩
      intro z hz
      have hz' : z ∈ x :: ys := (insertBy_perm le x ys).mem_iff.mp hz
      rcases List.mem_cons.mp hz' with rfl | hz'
      · exact hyx
      · exact hy.1 z hz'

theorem isort_pairwise {β : Type} (le : β → β → Bool)
    (htrans : ∀ a b c, le a b = true → le b c = true → le a c = true)
    (htotal : ∀ a b, le a b = true ∨ le b a = true) (l : List β) :
    (isort le l).Pairwise (fun a b => le a b = true) := by
  induction l with
  | nil => simp [isort]
  | cons x xs ih =>
    unfold isort
    exact insertBy_pairwise le htrans htotal x _ ih

/-! ### lookups in the world -/

theorem find?_of_nodup (l : List (VehicleS α B)) (hnd : (l.map (·.id)).Nodup) (v : VehicleS α B) (hv : v ∈ l) :
    l.find? (·.id == v.id) = some v := by
  induction l with
  | nil => cases hv
  | cons x xs ih =>
    simp only [List.map_cons, List.nodup_cons] at hnd
    rcases List.mem_cons.mp hv with rfl | hv
    · simp
    · have hne : x.id ≠ v.id := by
        intro he
        exact hnd.1 (by rw [he]; exact List.mem_map_of_mem hv)
      simp only [List.find?_cons]
      have : (x.id == v.id) = false := by simpa using hne
      rw [this]
      exact ih hnd.2 hv

theorem vehicle?_id (w : SWorld α B) (id : String) (v : VehicleS α B) (h : w.vehicle? id = some v) : v.id = id := by
  unfold SWorld.vehicle? at h
  have := List.find?_some h
  simpa using this

theorem vehicle?_setVehicle_ne (w : SWorld α B) (v' : VehicleS α B) (id : String) (hne : id ≠ v'.id) :
    (w.setVehicle v').vehicle? id = w.vehicle? id := by
  unfold SWorld.vehicle? SWorld.setVehicle
  simp only
  induction w.vehicles with
  | nil => rfl
  | cons x xs ih =>
    simp only [List.map_cons, List.find?_cons]
    by_cases hx : x.id = v'.id
    · have h1 : (x.id == v'.id) = true := by simpa using hx
      have h2 : (v'.id == id) = false := by simpa using (Ne.symm hne)
      have h3 : (x.id == id) = false := by rw [hx]; exact h2
      simp only [h1, if_true, h2, h3]
      exact ih
    · have h1 : (x.id == v'.id) = false := by simpa using hx
      simp only [h1, Bool.false_eq_true, if_false]
      split
      · rfl
      · exact ih

theorem modify_map_eq {β γ : Type} (g : β → γ) (f : β → β) (hgf : ∀ a, g (f a) = g a) (l : List β) (i : Nat) :
    (l.modify i f).map g = l.map g := by
  induction l generalizing i with
  | nil => simp
  | cons x xs ih =>
    cases i with
    | zero => simp [hgf]
    | succ j => simp [ih]

/-! ### the levels `fast_charge` works on -/

theorem mapM_levels (ts : List (TS α)) (idxs : List Int) (pls0 : List (α × Int))
    (h : idxs.mapM (fun i => match pyIndex ts i with
      | .error e => (.error e : Py (α × Int))
      | .ok info => .ok (info.curPower, i)) = .ok pls0) :
    pls0.map (·.2) = idxs ∧ ∀ pl ∈ pls0, ∃ info, pyIndex ts pl.2 = .ok info ∧ pl.1 = info.curPower := by
  induction idxs generalizing pls0 with
  | nil =>
    simp only [List.mapM_nil, pure, Except.pure, Except.ok.injEq] at h
    subst h
    simp
  | cons i rest ih =>
    simp only [List.mapM_cons, bind, Except.bind] at h
    split at h
    · cases h
    · rename_i x hx
      split at h
      · cases h
      · rename_i xs hxs
        simp only [pure, Except.pure, Except.ok.injEq] at h
        subst h
        obtain ⟨h1, h2⟩ := ih xs hxs
        split at hx
        · cases hx
        · rename_i info hinfo
          simp only [Except.ok.injEq] at hx
          subst hx
          refine ⟨by simp [h1], ?_⟩
          intro pl hpl
          rcases List.mem_cons.mp hpl with rfl | hpl
          · exact ⟨info, hinfo, rfl⟩
          · exact h2 pl hpl

/-- the timesteps `fast_charge` charges in: indices from the standing time, each with the predicted power it had
when the list was built, in strictly increasing order -/
theorem chosen_spec (ts : List (TS α)) (a d : Int) (pls0 : List (α × Int)) (h : fcLevels ts a d = .ok pls0)
    (idx : Nat) :
    (∀ pl ∈ isort (fun (p q : α × Int) => decide (p.2 ≤ q.2)) ((isort plLe pls0).take idx),
      a ≤ pl.2 ∧ ∃ info, pyIndex ts pl.2 = .ok info ∧ pl.1 = info.curPower) ∧
    (isort (fun (p q : α × Int) => decide (p.2 ≤ q.2)) ((isort plLe pls0).take idx)).Pairwise
      (fun p q => p.2 < q.2) := by
  unfold fcLevels at h
  obtain ⟨hidx, hinfo⟩ := mapM_levels ts _ pls0 h
  have hmem : ∀ pl ∈ isort (fun (p q : α × Int) => decide (p.2 ≤ q.2)) ((isort plLe pls0).take idx),
      pl ∈ pls0 := by
    intro pl hpl
    have h1 := (isort_perm _ _).mem_iff.mp hpl
    have h2 := List.mem_of_mem_take h1
    exact (isort_perm _ _).mem_iff.mp h2
  constructor
  · intro pl hpl
    have hp := hmem pl hpl
    refine ⟨?_, hinfo pl hp⟩
    have : pl.2 ∈ pls0.map (·.2) := List.mem_map_of_mem hp
    rw [hidx] at this
    simp only [List.mem_map, List.mem_range] at this
    obtain ⟨k, _, hk⟩ := this
    omega
  · have hnd0 : (pls0.map (·.2)).Nodup := by
      rw [hidx]
      apply List.Nodup.map _ List.nodup_range
      intro x y hxy
      simp only at hxy
      omega
    have hnd : ((isort (fun (p q : α × Int) => decide (p.2 ≤ q.2)) ((isort plLe pls0).take idx)).map (·.2)).Nodup := by
      have hp1 : ((isort (fun (p q : α × Int) => decide (p.2 ≤ q.2)) ((isort plLe pls0).take idx)).map (·.2)).Perm
          (((isort plLe pls0).take idx).map (·.2)) := (isort_perm _ _).map _
      rw [hp1.nodup_iff]
      have hs : (((isort plLe pls0).take idx).map (·.2)).Sublist ((isort plLe pls0).map (·.2)) :=
        (List.take_sublist _ _).map _
      apply List.Nodup.sublist hs
      have hp2 : ((isort plLe pls0).map (·.2)).Perm (pls0.map (·.2)) := (isort_perm _ _).map _
      rw [hp2.nodup_iff]
      exact hnd0
    have hsorted := isort_pairwise (fun (p q : α × Int) => decide (p.2 ≤ q.2))
      (by intro a b c h1 h2; simp only [decide_eq_true_eq] at *; omega)
      (by intro a b; simp only [decide_eq_true_eq]; omega) ((isort plLe pls0).take idx)
    have hne : (isort (fun (p q : α × Int) => decide (p.2 ≤ q.2)) ((isort plLe pls0).take idx)).Pairwise
        (fun p q => p.2 ≠ q.2) := by
      rw [List.Nodup, List.pairwise_map] at hnd
      exact hnd
    refine (hsorted.and hne).imp ?_
    intro p q hpq
    simp only [decide_eq_true_eq] at hpq
    omega

/-- charging steps at indices > 0 leave `timesteps[0]` and the command alone -/
theorem fcCharge_pos (ops : Ops α B) (cs : StationS α) (vMin opt : α) (chosen : List (α × Int))
    (hpos : ∀ pl ∈ chosen, 0 < pl.2) (b : B) (t0 : TS α) (r : List (TS α)) (delta command : α)
    (ts' : List (TS α)) (command' : α) (b' : B)
    (h : fcCharge ops cs vMin opt chosen b (t0 :: r) delta command = .ok (ts', command', b')) :
    command' = command ∧ ∃ r', ts' = t0 :: r' := by
  induction chosen generalizing b r delta command with
  | nil =>
    simp only [fcCharge, Except.ok.injEq, Prod.mk.injEq] at h
    obtain ⟨rfl, rfl, _⟩ := h
    exact ⟨rfl, r, rfl⟩
  | cons pl rest ih =>
    have hp : 0 < pl.2 := hpos pl (List.mem_cons_self ..)
    unfold fcCharge at h
    split at h
    · cases h
    · simp only at h
      split at h
      · cases h
      · rename_i b1 avg hl
        have hne : (pl.2 == 0) = false := by simpa using (ne_of_gt hp)
        have hnat : ∃ n, pl.2.toNat = n + 1 := ⟨pl.2.toNat - 1, by omega⟩
        obtain ⟨n, hn⟩ := hnat
        rw [hn] at h
        unfold tsAddCur at h
        simp only [List.modify_succ_cons, hne, Bool.false_eq_true, if_false] at h
        exact ih (fun q hq => hpos q (List.mem_cons_of_mem _ hq)) _ _ _ _ h

theorem ts_eta (t0 : TS α) : (⟨t0.maxPower, t0.curPower + 0, t0.fixedLoad⟩ : TS α) = t0 := by
  cases t0; simp

/-- what `fcCharge` does to `timesteps[0]` when started on a strictly increasing list of indices ≥ 0 whose entry
for index 0 (if any) carries the present predicted power -/
theorem fcCharge_head (ops : Ops α B) (law : BatLaw ops.bat) (cs : StationS α) (vMin opt : α)
    (chosen : List (α × Int)) (t0 : TS α) (r : List (TS α))
    (hmem : ∀ pl ∈ chosen, 0 ≤ pl.2 ∧ ∃ info, pyIndex (t0 :: r) pl.2 = .ok info ∧ pl.1 = info.curPower)
    (hsorted : chosen.Pairwise (fun p q => p.2 < q.2)) (b : B) (ts' : List (TS α)) (cmd : α) (b' : B)
    (h : fcCharge ops cs vMin opt chosen b (t0 :: r) 0 0 = .ok (ts', cmd, b')) :
    ∃ x r', ts' = ⟨t0.maxPower, t0.curPower + x, t0.fixedLoad⟩ :: r' ∧ 0 ≤ x ∧
      t0.curPower + x ≤ max t0.curPower t0.maxPower ∧
      (0 < cmd → ∃ b2, ops.bat.load b none none (some cmd) = .ok (b2, x)) := by
  cases chosen with
  | nil =>
    simp only [fcCharge, Except.ok.injEq, Prod.mk.injEq] at h
    obtain ⟨rfl, rfl, _⟩ := h
    exact ⟨0, r, by rw [ts_eta], le_refl _, by simp, fun hc => absurd hc (lt_irrefl _)⟩
  | cons pl rest =>
    obtain ⟨hpl0, info, hinfo, hplc⟩ := hmem pl (List.mem_cons_self ..)
    have hrest : ∀ q ∈ rest, 0 < q.2 := by
      intro q hq
      have := (List.pairwise_cons.mp hsorted).1 q hq
      omega
    rcases lt_or_eq_of_le hpl0 with hpos | hzero
    · -- every index is positive: nothing happens at index 0
      have hall : ∀ q ∈ pl :: rest, 0 < q.2 := by
        intro q hq
        rcases List.mem_cons.mp hq with rfl | hq
        · exact hpos
        · exact hrest q hq
      obtain ⟨hc, r', hr'⟩ := fcCharge_pos ops cs vMin opt _ hall _ _ _ _ _ _ _ _ h
      subst hc
      exact ⟨0, r', by rw [ts_eta]; exact hr', le_refl _, by simp, fun hc => absurd hc (lt_irrefl _)⟩
    · -- the first charging step is the present timestep
      have hz : pl.2 = 0 := hzero.symm
      unfold fcCharge at h
      rw [hinfo] at h
      simp only at h
      have hi0 : info = t0 := by
        rw [hz] at hinfo
        obtain ⟨r0, hr0⟩ := pyIndex_zero _ _ hinfo
        simp only [List.cons.injEq] at hr0
        exact hr0.1.symm
      subst hi0
      split at h
      · cases h
      · rename_i b1 avg hl
        obtain ⟨ha0, ha1⟩ := law.load_target _ _ _ _ hl
        have hbeq : (pl.2 == 0) = true := by simpa using hz
        rw [hz] at h
        simp only [Int.toNat_zero, beq_self_eq_true, if_true] at h
        unfold tsAddCur at h
        simp only [List.modify_zero_cons] at h
        obtain ⟨hc, r', hr'⟩ := fcCharge_pos ops cs vMin opt rest hrest _ _ _ _ _ _ _ _ h
        refine ⟨avg, r', hr', ha0, ?_, ?_⟩
        · -- within the limit of the present step
          have hb := (clampPower_bounds (pymin (opt + 0) info.maxPower - pl.1) cs.currentPower cs.maxPower
            cs.minPower vMin).2
          have hb0 := (clampPower_bounds (pymin (opt + 0) info.maxPower - pl.1) cs.currentPower cs.maxPower
            cs.minPower vMin).1
          rw [max_eq_left hb0] at ha1
          rw [hplc, pymin_eq] at hb ha1
          have h3 : min (opt + 0) info.maxPower - info.curPower ≤ info.maxPower - info.curPower := by
            have := min_le_right (opt + 0) info.maxPower
            linarith
          rcases le_total (min (opt + 0) info.maxPower - info.curPower) 0 with hneg | hpos2
          · rw [max_eq_left hneg] at hb
            have : avg ≤ 0 := le_trans ha1 hb
            have : info.curPower ≤ max info.curPower info.maxPower := le_max_left _ _
            linarith
          · rw [max_eq_right hpos2] at hb
            have : info.curPower + avg ≤ info.maxPower := by linarith
            exact le_trans this (le_max_right _ _)
        · intro _
          rw [hc]
          exact ⟨b1, hl⟩

theorem fastCharge_head (ops : Ops α B) (law : BatLaw ops.bat) (env : Env α) (w : SWorld α B) (vi : VInfo α B)
    (a d : Int) (ha : 0 ≤ a) (t0 : TS α) (r : List (TS α)) (ts' : List (TS α)) (cmd : α)
    (h : fastCharge ops env w vi a d (t0 :: r) = .ok (ts', cmd)) :
    ∃ x r', ts' = ⟨t0.maxPower, t0.curPower + x, t0.fixedLoad⟩ :: r' ∧ 0 ≤ x ∧
      t0.curPower + x ≤ max t0.curPower t0.maxPower ∧
      (0 < cmd → ∃ b2, ops.bat.load vi.veh.bat none none (some cmd) = .ok (b2, x)) := by
  unfold fastCharge at h
  split at h
  · simp only [Except.ok.injEq, Prod.mk.injEq] at h
    obtain ⟨rfl, rfl⟩ := h
    exact ⟨0, r, by rw [ts_eta], le_refl _, by simp, fun hc => absurd hc (lt_irrefl _)⟩
  · split at h
    · cases h
    · rename_i cs hcs
      split at h
      · cases h
      · rename_i pls0 hlev
        simp only at h
        split at h
        · cases h
        · split at h
          · cases h
          · rename_i s hs
            split at h
            · cases h
            · rename_i power hpow
              split at h
              · cases h
              · rename_i ts1 cmd1 b1 hfc
                simp only [Except.ok.injEq, Prod.mk.injEq] at h
                obtain ⟨rfl, rfl⟩ := h
                obtain ⟨hmem, hsorted⟩ := chosen_spec (t0 :: r) a d pls0 hlev s.idx
                exact fcCharge_head ops law cs _ _ _ t0 r
                  (fun pl hpl => ⟨le_trans ha (hmem pl hpl).1, (hmem pl hpl).2⟩) hsorted _ _ _ _ hfc

/-- target-power delivery of the battery on exact numbers (C02's target-power sentence): a positive request is met
exactly, or the battery is saturated — then a larger request yields the same average power -/
def LoadSat (ops : Ops α B) : Prop :=
  ∀ b p q b1 a1 b2 a2, 0 < p → p ≤ q → ops.bat.load b none none (some p) = .ok (b1, a1) →
    ops.bat.load b none none (some q) = .ok (b2, a2) → a1 = p ∨ a2 = a1

/-- planning consistency: `x` is what planning the vehicle added to the predicted power of the present step; whatever
target `q ≥ schedule` the apply pass finally asks of a vehicle standing now, the battery takes at most `x` plus what
the pass books as surplus use, `max(avg − max(schedule, 0), 0)` -/
def Consistent (ops : Ops α B) (vi : VInfo α B) (x : α) : Prop :=
  0 ≤ x ∧ 0 ≤ vi.schedule ∧ (vi.arrivalIdx ≤ 0 → ∀ q b' a', vi.schedule ≤ q →
    ops.bat.load vi.veh.bat none none (some q) = .ok (b', a') → a' ≤ x + max (a' - max vi.schedule 0) 0)

theorem adjustVehicle_head (ops : Ops α B) (law : BatLaw ops.bat) (hsat : LoadSat ops) (env : Env α)
    (w : SWorld α B) (nAhead : Int)
    (t0 : TS α) (r : List (TS α)) (ts' : List (TS α)) (vi vi' : VInfo α B) (d : Int) (ha : 0 ≤ vi.arrivalIdx)
    (h : adjustVehicle ops env w t0.maxPower nAhead (t0 :: r) vi d = .ok (ts', vi')) :
    ∃ x r', ts' = ⟨t0.maxPower, t0.curPower + x, t0.fixedLoad⟩ :: r' ∧ Consistent ops vi' x ∧
      t0.curPower + x ≤ max t0.curPower t0.maxPower := by
  unfold adjustVehicle at h
  simp only at h
  split at h
  · split at h
    · cases h
    · rename_i cs hcs
      split at h
      · cases h
      · rename_i power hpower
        split at h
        · cases h
        · rename_i t0' ht0'
          obtain ⟨r0, hr0⟩ := pyIndex_zero _ _ ht0'
          simp only [List.cons.injEq] at hr0
          obtain ⟨rfl, _⟩ := hr0
          simp only [Except.ok.injEq, Prod.mk.injEq] at h
          obtain ⟨rfl, rfl⟩ := h
          obtain ⟨hb0, hb1⟩ := clampPower_bounds (pymin power (t0.maxPower - t0.curPower)) cs.currentPower
            cs.maxPower cs.minPower vi.veh.minChargingPower
          refine ⟨_, r, by unfold tsAddCur; simp only [List.modify_zero_cons], ⟨hb0, hb0, ?_⟩, ?_⟩
          · intro _ q b' a' _ _
            simp only
            rw [max_eq_left hb0]
            have := le_max_left (a' - clampPower (pymin power (t0.maxPower - t0.curPower)) cs.currentPower
              cs.maxPower cs.minPower vi.veh.minChargingPower) 0
            linarith
          · rw [pymin_eq] at hb1
            rcases le_total (min power (t0.maxPower - t0.curPower)) 0 with hneg | hpos
            · rw [max_eq_left hneg] at hb1
              have := le_max_left t0.curPower t0.maxPower
              have : clampPower (pymin power (t0.maxPower - t0.curPower)) cs.currentPower cs.maxPower cs.minPower
                  vi.veh.minChargingPower = 0 := le_antisymm (by simpa using hb1) hb0
              rw [this]
              simp
            · rw [max_eq_right hpos] at hb1
              have := min_le_right power (t0.maxPower - t0.curPower)
              have : t0.curPower + clampPower (pymin power (t0.maxPower - t0.curPower)) cs.currentPower
                  cs.maxPower cs.minPower vi.veh.minChargingPower ≤ t0.maxPower := by
                rw [pymin_eq]; linarith
              exact le_trans this (le_max_right _ _)
  · split at h
    · cases h
    · rename_i vi1 d1 hsc
      have hvi1 : vi1.arrivalIdx = vi.arrivalIdx ∧ vi1.veh.bat = vi.veh.bat := by
        unfold scaleVehicle at hsc
        split at hsc
        · split at hsc
          · cases hsc
          · simp only [Except.ok.injEq, Prod.mk.injEq] at hsc
            obtain ⟨rfl, _⟩ := hsc
            exact ⟨rfl, rfl⟩
        · simp only [Except.ok.injEq, Prod.mk.injEq] at hsc
          obtain ⟨rfl, _⟩ := hsc
          exact ⟨rfl, rfl⟩
      split at h
      · cases h
      · rename_i ts1 cmd hfc
        simp only [Except.ok.injEq, Prod.mk.injEq] at h
        obtain ⟨rfl, rfl⟩ := h
        obtain ⟨x, r', hts, hx0, hxle, hcons⟩ :=
          fastCharge_head ops law env w vi1 vi1.arrivalIdx d1 (by rw [hvi1.1]; exact ha) t0 r _ _ hfc
        have hcmd0 : 0 ≤ cmd := by
          rcases (fastCharge_spec ops law env w _ _ _ _ _ _ hfc).2 with hz | ⟨cs, _, hh⟩
          · rw [hz]
          · exact (inHeadroom_bounds cs _ _ hh).1
        refine ⟨x, r', hts, ⟨hx0, hcmd0, ?_⟩, hxle⟩
        intro _ q b' a' hq hl
        simp only at hl hq ⊢
        rcases lt_or_eq_of_le hcmd0 with hpos | hzero
        · obtain ⟨b2, hl2⟩ := hcons hpos
          rw [max_eq_left hcmd0]
          rcases hsat _ _ _ _ _ _ _ hpos hq hl2 hl with hx | ha
          · have := le_max_left (a' - cmd) 0
            linarith
          · have := le_max_right (a' - cmd) 0
            linarith
        · rw [← hzero]
          simp only [max_self, sub_zero]
          have := le_max_left a' 0
          linarith

/-! ### the whole planning loop, seen from `timesteps[0]` -/

/-- the fields of a planned vehicle the apply pass relies on -/
def proj (vi : VInfo α B) : String × Int × B × Option String := (vi.vid, vi.arrivalIdx, vi.veh.bat, vi.veh.cs)

theorem forall₂_snoc {β γ : Type} (R : β → γ → Prop) (l : List β) (m : List γ) (a : β) (b : γ)
    (h : List.Forall₂ R l m) (hab : R a b) : List.Forall₂ R (l ++ [a]) (m ++ [b]) := by
  induction h with
  | nil => exact List.Forall₂.cons hab List.Forall₂.nil
  | cons hxy _ ih => exact List.Forall₂.cons hxy ih

theorem adjustAll_head (ops : Ops α B) (law : BatLaw ops.bat) (hsat : LoadSat ops) (env : Env α)
    (w : SWorld α B) (nAhead : Int)
    (curMax : α) (vs : List (VInfo α B)) (hvs : ∀ vi ∈ vs, 0 ≤ vi.arrivalIdx) (t0 : TS α) (r : List (TS α))
    (ht0 : t0.maxPower = curMax) (done : List (VInfo α B)) (xs : List α)
    (hdone : List.Forall₂ (Consistent ops) done xs) (ts' : List (TS α)) (done' : List (VInfo α B))
    (h : adjustAll ops env w curMax nAhead vs (t0 :: r) done = .ok (ts', done')) :
    ∃ xs' r', ts' = ⟨t0.maxPower, t0.curPower + xs'.sum, t0.fixedLoad⟩ :: r' ∧
      List.Forall₂ (Consistent ops) done' (xs ++ xs') ∧
      t0.curPower + xs'.sum ≤ max t0.curPower curMax ∧
      done'.map proj = done.map proj ++ (vs.filter (·.departIdx.isSome)).map proj := by
  induction vs generalizing t0 r done xs with
  | nil =>
    simp only [adjustAll, Except.ok.injEq, Prod.mk.injEq] at h
    obtain ⟨rfl, rfl⟩ := h
    exact ⟨[], r, by simp [ts_eta], by simpa using hdone, by simp, by simp⟩
  | cons vi rest ih =>
    have hrest : ∀ v ∈ rest, 0 ≤ v.arrivalIdx := fun v hv => hvs v (List.mem_cons_of_mem _ hv)
    unfold adjustAll at h
    split at h
    · rename_i hnone
      obtain ⟨xs', r', h1, h2, h3, h4⟩ := ih hrest t0 r ht0 done xs hdone h
      refine ⟨xs', r', h1, h2, h3, ?_⟩
      rw [h4]
      simp [List.filter_cons, hnone]
    · rename_i d hd
      split at h
      · cases h
      · rename_i ts1 vi1 hadj
        obtain ⟨_, hvid, harr, hcs', hbat, _, _⟩ := adjustVehicle_spec ops law env w curMax nAhead _ _ _ _ _ hadj
        rw [← ht0] at hadj
        obtain ⟨x, r1, hts1, hcons, hle⟩ := adjustVehicle_head ops law hsat env w nAhead t0 r ts1 vi vi1 d
          (hvs vi (List.mem_cons_self ..)) hadj
        subst hts1
        obtain ⟨xs', r', h1, h2, h3, h4⟩ := ih hrest ⟨t0.maxPower, t0.curPower + x, t0.fixedLoad⟩ r1 ht0
          (done ++ [vi1]) (xs ++ [x]) (forall₂_snoc _ _ _ _ _ hdone hcons) h
        simp only at h1 h3
        refine ⟨x :: xs', r', ?_, ?_, ?_, ?_⟩
        · rw [h1, List.sum_cons, add_assoc]
        · simpa using h2
        · rw [List.sum_cons, ← add_assoc]
          refine le_trans h3 (max_le ?_ (le_max_right _ _))
          rw [ht0] at hle
          exact hle
        · rw [h4]
          have hp : proj vi1 = proj vi := by
            unfold proj
            rw [hvid, harr, hbat, hcs']
          simp [List.filter_cons, hd, hp]

theorem consistent_sum_nonneg (ops : Ops α B) (vs : List (VInfo α B)) (xs : List α)
    (h : List.Forall₂ (Consistent ops) vs xs) : 0 ≤ xs.sum := by
  induction h with
  | nil => simp
  | cons hvx _ ih => rw [List.sum_cons]; linarith [hvx.1]

/-! ### the apply pass without surplus -/

theorem applyVehicles_le (ops : Ops α B) (law : BatLaw ops.bat) (s0 : α) (vs : List (VInfo α B)) (xs : List α)
    (hc : List.Forall₂ (Consistent ops) vs xs) (used : α) (acc acc' : Acc α B)
    (hnn : ∀ vi ∈ vs, 0 ≤ vi.arrivalIdx)
    (hw : ∀ vi ∈ vs, vi.arrivalIdx = 0 → ∃ v, acc.world.vehicle? vi.vid = some v ∧ vi.veh.bat = v.bat)
    (hpw : vs.Pairwise (fun a b => a.arrivalIdx = 0 → b.arrivalIdx = 0 → a.vid ≠ b.vid))
    (hu0 : 0 ≤ used) (hus : used ≤ max s0 0)
    (h : applyVehicles ops s0 vs used acc = .ok acc') :
    acc.gc.currentLoad ≤ acc'.gc.currentLoad ∧
      acc'.gc.currentLoad ≤ acc.gc.currentLoad + xs.sum + (max s0 0 - used) ∧
      acc'.gc.curMax = acc.gc.curMax ∧ acc'.gc.id = acc.gc.id := by
  induction hc generalizing used acc with
  | nil =>
    simp only [applyVehicles, Except.ok.injEq] at h
    subst h
    refine ⟨le_refl _, ?_, rfl, rfl⟩
    simp only [List.sum_nil, add_zero]
    linarith
  | @cons vi x rest xs' hvx _ ih =>
    have hnn' : ∀ v ∈ rest, 0 ≤ v.arrivalIdx := fun v hv => hnn v (List.mem_cons_of_mem _ hv)
    have hpw' := (List.pairwise_cons.mp hpw).2
    obtain ⟨hx0, hs0, hcons⟩ := hvx
    have skip : applyVehicles ops s0 rest used acc = .ok acc' →
        acc.gc.currentLoad ≤ acc'.gc.currentLoad ∧
        acc'.gc.currentLoad ≤ acc.gc.currentLoad + (x :: xs').sum + (max s0 0 - used) ∧
        acc'.gc.curMax = acc.gc.curMax ∧ acc'.gc.id = acc.gc.id := by
      intro h1
      obtain ⟨h1, h2, h3, h4⟩ := ih used acc hnn' (fun v hv => hw v (List.mem_cons_of_mem _ hv)) hpw' hu0 hus h1
      refine ⟨h1, ?_, h3, h4⟩
      rw [List.sum_cons]; linarith
    unfold applyVehicles at h
    split at h
    · exact skip h
    · rename_i harr
      have harr0 : vi.arrivalIdx = 0 := le_antisymm (not_lt.mp harr) (hnn vi (List.mem_cons_self ..))
      split at h
      · cases h
      · rename_i p hoff
        obtain ⟨_, hsp, hnosur, hsur⟩ := offerSurplus_spec _ _ _ _ hoff
        split at h
        · rename_i hpos
          split at h
          · cases h
          · rename_i v hv
            split at h
            · cases h
            · rename_i bat' avg hl
              simp only at h
              obtain ⟨v0, hv0, hbat0⟩ := hw vi (List.mem_cons_self ..) harr0
              rw [hv] at hv0
              simp only [Option.some.injEq] at hv0
              subst hv0
              obtain ⟨ha0, ha1⟩ := law.load_target _ _ _ _ hl
              rw [max_eq_left hpos.le] at ha1
              rw [← hbat0] at hl
              have havg := hcons (le_of_eq harr0) p bat' avg hsp hl
              simp only [pymax_eq] at h
              -- what the pass books as used surplus stays within the surplus that is left
              have hu : max (avg - max vi.schedule 0) 0 ≤ max (s0 - used) 0 := by
                rw [max_eq_left hs0]
                apply max_le _ (le_max_right _ _)
                rcases le_or_gt (s0 - used) 0 with hle | hgt
                · rw [hnosur hle] at ha1
                  exact le_trans (by linarith) (le_max_right _ _)
                · have := hsur hgt hs0
                  exact le_trans (by linarith) (le_max_left _ _)
              have hu0' : 0 ≤ used + max (avg - max vi.schedule 0) 0 := by
                have := le_max_right (avg - max vi.schedule 0) 0
                linarith
              have hus' : used + max (avg - max vi.schedule 0) 0 ≤ max s0 0 := by
                rcases le_or_gt (s0 - used) 0 with hle | hgt
                · rw [max_eq_right hle] at hu
                  linarith
                · rw [max_eq_left hgt.le] at hu
                  have := le_max_left s0 0
                  linarith
              have hvid : v.id = vi.vid := vehicle?_id _ _ _ hv
              obtain ⟨h1, h2, h3, h4⟩ := ih _ _ hnn' (by
                intro vj hvj hj0
                obtain ⟨vv, hvv, hbb⟩ := hw vj (List.mem_cons_of_mem _ hvj) hj0
                refine ⟨vv, ?_, hbb⟩
                simp only
                rw [vehicle?_setVehicle_ne]
                · exact hvv
                · simp only [hvid]
                  exact fun he => (List.pairwise_cons.mp hpw).1 vj hvj harr0 hj0 he.symm) hpw' hu0' hus' h
              obtain ⟨hcl, hcm, hid, _⟩ := addLoad_currentLoad acc.gc (vi.veh.cs.getD "None") avg
              simp only at h1 h2 h3 h4
              rw [hcl] at h1 h2
              rw [hcm] at h3
              rw [hid] at h4
              refine ⟨by linarith, ?_, h3, h4⟩
              rw [List.sum_cons]; linarith
        · exact skip h

/-! ### the arrivals the forecast produces -/

/-- entries standing now (`arrival_idx = 0`) are distinct vehicles of the world with the world's battery state;
predicted arrivals have a positive index -/
def ArrInv (w : SWorld α B) (ps : List (String × Int × B × Option String)) : Prop :=
  (∀ p ∈ ps, 0 ≤ p.2.1 ∧ (p.2.1 = 0 → ∃ v c, w.vehicle? p.1 = some v ∧ p.2.2.1 = v.bat ∧
    p.2.2.2 = some c ∧ v.cs = some c)) ∧
  ps.Pairwise (fun a b => a.2.1 = 0 → b.2.1 = 0 → a.1 ≠ b.1)

theorem arrInv_snoc_future (w : SWorld α B) (ps : List (String × Int × B × Option String)) (h : ArrInv w ps)
    (q : String × Int × B × Option String) (hq : 0 < q.2.1) : ArrInv w (ps ++ [q]) := by
  obtain ⟨h1, h2⟩ := h
  constructor
  · intro p hp
    rcases List.mem_append.mp hp with hp | hp
    · exact h1 p hp
    · simp only [List.mem_singleton] at hp
      subst hp
      exact ⟨hq.le, fun h0 => absurd h0 (ne_of_gt hq)⟩
  · rw [List.pairwise_append]
    refine ⟨h2, List.pairwise_singleton _ _, ?_⟩
    intro a _ b hb _ hb0
    simp only [List.mem_singleton] at hb
    subst hb
    exact absurd hb0 (ne_of_gt hq)

theorem initialArrivals_inv (env : Env α) (w : SWorld α B) (gcId : String) (vs : List (VehicleS α B))
    (present : List (String × Nat)) (arr : List (VInfo α B))
    (hsub : ∀ v ∈ vs, w.vehicle? v.id = some v) (hnd : (vs.map (·.id)).Nodup)
    (hinv : ArrInv w (arr.map proj)) (hfresh : ∀ p ∈ arr.map proj, p.1 ∉ vs.map (·.id))
    (present' : List (String × Nat)) (arr' : List (VInfo α B))
    (h : initialArrivals env w gcId vs present arr = .ok (present', arr')) : ArrInv w (arr'.map proj) := by
  induction vs generalizing present arr with
  | nil =>
    simp only [initialArrivals, Except.ok.injEq, Prod.mk.injEq] at h
    obtain ⟨_, rfl⟩ := h
    exact hinv
  | cons v rest ih =>
    have hsub' : ∀ x ∈ rest, w.vehicle? x.id = some x := fun x hx => hsub x (List.mem_cons_of_mem _ hx)
    simp only [List.map_cons, List.nodup_cons] at hnd
    have hfresh' : ∀ p ∈ arr.map proj, p.1 ∉ rest.map (·.id) := by
      intro p hp hm
      exact hfresh p hp (by simp only [List.map_cons]; exact List.mem_cons_of_mem _ hm)
    unfold initialArrivals at h
    split at h
    · exact ih _ _ hsub' hnd.2 hinv hfresh' h
    · rename_i csId hcsv
      split at h
      · cases h
      · split at h
        · refine ih _ _ hsub' hnd.2 ?_ ?_ h
          · simp only [List.map_append, List.map_cons, List.map_nil]
            obtain ⟨h1, h2⟩ := hinv
            constructor
            · intro p hp
              rcases List.mem_append.mp hp with hp | hp
              · exact h1 p hp
              · simp only [List.mem_singleton] at hp
                subst hp
                exact ⟨le_refl _, fun _ => ⟨v, csId, hsub v (List.mem_cons_self ..), rfl, hcsv, hcsv⟩⟩
            · rw [List.pairwise_append]
              refine ⟨h2, List.pairwise_singleton _ _, ?_⟩
              intro a ha b hb _ _
              simp only [List.mem_singleton] at hb
              subst hb
              intro he
              exact hfresh a ha (by simp only [List.map_cons]; rw [he]; exact List.mem_cons_self ..)
          · intro p hp
            simp only [List.map_append, List.map_cons, List.map_nil] at hp
            rcases List.mem_append.mp hp with hp | hp
            · exact hfresh' p hp
            · simp only [List.mem_singleton] at hp
              subst hp
              exact hnd.1
        · exact ih _ _ hsub' hnd.2 hinv hfresh' h

theorem applyEvent_inv (ops : Ops α B) (env : Env α) (w : SWorld α B) (gcId : String) (tIdx : Int)
    (ht : 1 ≤ tIdx) (st st' : Look α B) (e : Ev α) (hinv : ArrInv w (st.arrivals.map proj))
    (h : applyEvent ops env w gcId tIdx st e = .ok st') : ArrInv w (st'.arrivals.map proj) := by
  cases e with
  | gen s gc name value =>
    simp only [applyEvent] at h
    split at h <;> (simp only [Except.ok.injEq] at h; subst h; exact hinv)
  | load s gc name value =>
    simp only [applyEvent] at h
    split at h <;> (simp only [Except.ok.injEq] at h; subst h; exact hinv)
  | signal s gc mp =>
    simp only [applyEvent] at h
    split at h
    · simp only [Except.ok.injEq] at h; subst h; exact hinv
    · split at h <;> (simp only [Except.ok.injEq] at h; subst h; exact hinv)
  | departure s vid =>
    simp only [applyEvent] at h
    simp only [Except.ok.injEq] at h
    subst h
    simp only
    split
    · simp only
      rw [modify_map_eq proj (fun a => { a with departIdx := some tIdx }) (fun a => rfl)]
      exact hinv
    · exact hinv
  | arrival s vid cs desired socDelta etd =>
    simp only [applyEvent] at h
    split at h
    · simp only [Except.ok.injEq] at h; subst h; exact hinv
    · split at h
      · simp only [Except.ok.injEq] at h; subst h; exact hinv
      · split at h
        · split at h
          · simp only [Except.ok.injEq] at h; subst h; exact hinv
          · split at h
            · split at h
              · cases h
              · simp only [Except.ok.injEq] at h
                subst h
                simp only [List.map_append, List.map_cons, List.map_nil]
                exact arrInv_snoc_future w _ hinv _ (by simp only [proj]; omega)
            · simp only [Except.ok.injEq] at h; subst h; exact hinv
        · cases h
  | other s =>
    simp only [applyEvent, Except.ok.injEq] at h
    subst h
    exact hinv

theorem peek_inv (ops : Ops α B) (env : Env α) (w : SWorld α B) (gcId : String) (tIdx curTime : Int)
    (ht : 1 ≤ tIdx) (evs evs' : List (Ev α)) (st st' : Look α B) (hinv : ArrInv w (st.arrivals.map proj))
    (h : peek ops env w gcId tIdx curTime evs st = .ok (evs', st')) : ArrInv w (st'.arrivals.map proj) := by
  induction evs generalizing st with
  | nil =>
    simp only [peek, Except.ok.injEq, Prod.mk.injEq] at h
    obtain ⟨_, rfl⟩ := h
    exact hinv
  | cons e rest ih =>
    unfold peek at h
    split at h
    · simp only [Except.ok.injEq, Prod.mk.injEq] at h
      obtain ⟨_, rfl⟩ := h
      exact hinv
    · split at h
      · cases h
      · rename_i st1 hst1
        exact ih st1 (applyEvent_inv ops env w gcId tIdx ht _ _ e hinv hst1) h

theorem lookAhead_inv (ops : Ops α B) (env : Env α) (w : SWorld α B) (gcId : String) (k : Nat) (tIdx : Int)
    (ht : 1 ≤ tIdx) (evs : List (Ev α)) (st st' : Look α B) (acc ts : List (TS α))
    (hinv : ArrInv w (st.arrivals.map proj))
    (h : lookAhead ops env w gcId k tIdx evs st acc = .ok (st', ts)) : ArrInv w (st'.arrivals.map proj) := by
  induction k generalizing tIdx evs st acc with
  | zero =>
    simp only [lookAhead, Except.ok.injEq, Prod.mk.injEq] at h
    obtain ⟨rfl, _⟩ := h
    exact hinv
  | succ k ih =>
    unfold lookAhead at h
    split at h
    · cases h
    · rename_i evs1 st1 hp
      exact ih (tIdx + 1) (by omega) _ _ _ (peek_inv ops env w gcId tIdx _ ht _ _ _ _ hinv hp) h

/-- vehicle ids of the world are unique -/
def UniqueVehicles (w : SWorld α B) : Prop := (w.vehicles.map (·.id)).Nodup

theorem forecast_arr (ops : Ops α B) (env : Env α) (w : SWorld α B) (hu : UniqueVehicles w)
    (events : List (Ev α)) (hev : EventsAhead env events) (gc : GcS α) (nAhead : Int)
    (arr : List (VInfo α B)) (ts : List (TS α))
    (h : forecast ops env w events gc nAhead = .ok (arr, ts)) : ArrInv w (arr.map proj) := by
  unfold forecast at h
  split at h
  · cases h
  · rename_i present arr0 hia
    have h0 : ArrInv w (arr0.map proj) := by
      refine initialArrivals_inv env w gc.id w.vehicles [] [] ?_ hu ?_ ?_ _ _ hia
      · intro v hv
        exact find?_of_nodup w.vehicles hu v hv
      · exact ⟨by simp, by simp⟩
      · simp
    split at h
    · cases h
    · rename_i st ts1 hla
      simp only [Except.ok.injEq, Prod.mk.injEq] at h
      obtain ⟨rfl, _⟩ := h
      cases hk : nAhead.toNat with
      | zero =>
        rw [hk] at hla
        simp only [lookAhead, Except.ok.injEq, Prod.mk.injEq] at hla
        rw [← hla.1]
        exact h0
      | succ k =>
        rw [hk] at hla
        unfold lookAhead at hla
        rw [peek_future ops env w gc.id 0 _ _ _ (by intro e he; simpa using hev e he)] at hla
        simp only at hla
        exact lookAhead_inv ops env w gc.id k (0 + 1) (by omega) _ _ _ _ _ h0 hla

theorem orderVehicles_inv (w : SWorld α B) (nAhead : Int) (arr : List (VInfo α B))
    (h : ArrInv w (arr.map proj)) : ArrInv w ((orderVehicles nAhead arr).map proj) := by
  obtain ⟨h1, h2⟩ := h
  unfold orderVehicles
  simp only
  have hperm := isort_perm (fun (a b : VInfo α B) =>
    decide (pymin (a.departIdx.getD 0) nAhead - a.arrivalIdx ≤ pymin (b.departIdx.getD 0) nAhead - b.arrivalIdx))
    (arr.filter (fun v => v.departIdx.isSome))
  constructor
  · intro p hp
    simp only [List.mem_map] at hp
    obtain ⟨vi, hvi, rfl⟩ := hp
    have := List.mem_of_mem_filter (hperm.mem_iff.mp hvi)
    exact h1 _ (List.mem_map_of_mem this)
  · rw [List.pairwise_map] at h2 ⊢
    have hsym : ∀ {x y : VInfo α B}, ((proj x).2.1 = 0 → (proj y).2.1 = 0 → (proj x).1 ≠ (proj y).1) →
        ((proj y).2.1 = 0 → (proj x).2.1 = 0 → (proj y).1 ≠ (proj x).1) :=
      fun hxy hy hx he => hxy hx hy he.symm
    rw [hperm.pairwise_iff hsym]
    exact List.Pairwise.sublist List.filter_sublist h2

/-- **The vehicle pass keeps the limit** (repaired code, fixes/PS1.diff), surplus or not.  With the battery law, exact
target-power delivery (`LoadSat`), exact `sum`, no visible event at or before the present step and unique vehicle
ids: if the connector's load before the step is at most its limit (and the limit is not negative), then after
forecast, planning and the apply pass it is still at most the limit, and not lower than before. -/
theorem vehiclePass_limit (ops : Ops α B) (law : BatLaw ops.bat) (hsat : LoadSat ops) (hsum : SumExact ops)
    (env : Env α) (events : List (Ev α)) (hev : EventsAhead env events) (w : SWorld α B) (hu : UniqueVehicles w)
    (gc : GcS α) (hm0 : 0 ≤ gc.curMax) (hmax : gc.currentLoad ≤ gc.curMax) (nAhead : Int)
    (arr : List (VInfo α B)) (ts0 ts : List (TS α)) (vehicles : List (VInfo α B)) (acc : Acc α B)
    (hfc : forecast ops env w events gc nAhead = .ok (arr, ts0))
    (hadj : adjustAll ops env w gc.curMax nAhead (orderVehicles nAhead arr) ts0 [] = .ok (ts, vehicles))
    (hap : applyPass ops w gc ts vehicles = .ok acc) :
    gc.currentLoad ≤ acc.gc.currentLoad ∧ acc.gc.currentLoad ≤ gc.curMax ∧
      acc.gc.curMax = gc.curMax ∧ acc.gc.id = gc.id := by
  have hinv := orderVehicles_inv w nAhead arr (forecast_arr ops env w hu events hev gc nAhead arr ts0 hfc)
  rcases forecast_head ops hsum env w events hev gc nAhead arr ts0 hfc with rfl | ⟨more, rfl⟩
  · -- empty horizon: nothing can be applied
    have hts : ts = [] := by
      obtain ⟨hm, _⟩ := adjustAll_spec ops law env w gc.curMax nAhead _ _ _ _ _ (by simp) hadj
      cases hm; rfl
    subst hts
    rcases applyPass_trace ops w gc [] vehicles acc hap with ⟨_, rfl⟩ | ⟨t0, ht0, _⟩
    · exact ⟨le_refl _, hmax, rfl, rfl⟩
    · simp at ht0
  · have hnn : ∀ vi ∈ orderVehicles nAhead arr, 0 ≤ vi.arrivalIdx := by
      intro vi hvi
      exact (hinv.1 (proj vi) (List.mem_map_of_mem hvi)).1
    obtain ⟨xs, r', hts, hcons, hle, hproj⟩ := adjustAll_head ops law hsat env w nAhead gc.curMax _ hnn
      ⟨gc.curMax, gc.currentLoad, gc.currentLoad⟩ more rfl [] [] List.Forall₂.nil ts vehicles hadj
    simp only [List.nil_append, List.map_nil] at hcons hproj hle hts
    have hfilter : (orderVehicles nAhead arr).filter (·.departIdx.isSome) = orderVehicles nAhead arr := by
      apply List.filter_eq_self.mpr
      intro vi hvi
      unfold orderVehicles at hvi
      have := (isort_perm _ _).mem_iff.mp hvi
      exact (List.mem_filter.mp this).2
    rw [hfilter] at hproj
    rw [← hproj] at hinv
    unfold applyPass at hap
    split at hap
    · rw [hts] at hap
      simp only [pyIndex, lt_self_iff_false, if_false, Int.toNat_zero, List.getElem?_cons_zero, pymin_eq] at hap
      have hxs : 0 ≤ xs.sum := consistent_sum_nonneg ops _ _ hcons
      obtain ⟨h1, h2, h3, h4⟩ := applyVehicles_le ops law _ vehicles xs hcons 0 ⟨w, gc, []⟩ acc
        (fun vi hvi => (hinv.1 (proj vi) (List.mem_map_of_mem hvi)).1)
        (fun vi hvi h0' => by
          obtain ⟨v, c, hv, hb, _, _⟩ := (hinv.1 (proj vi) (List.mem_map_of_mem hvi)).2 h0'
          exact ⟨v, hv, hb⟩)
        (by
          have := hinv.2
          rw [List.pairwise_map] at this
          exact this) (le_refl _) (le_max_right _ _) hap
      simp only [sub_zero] at h1 h2 h3 h4
      refine ⟨h1, ?_, h3, h4⟩
      rw [max_eq_right hmax] at hle
      -- load ≤ c + max(−min(c, 0), 0) = max(c, 0) ≤ limit, with c the planned power of the present step
      rcases le_total (gc.currentLoad + xs.sum) 0 with hc | hc
      · rw [min_eq_left hc, max_eq_left (by linarith)] at h2
        linarith
      · rw [min_eq_right hc] at h2
        simp only [neg_zero, max_self] at h2
        linarith
    · simp only [Except.ok.injEq] at hap
      subst hap
      exact ⟨le_refl _, hmax, rfl, rfl⟩

/-! ### only stations with a connected vehicle are booked -/

theorem adjustAll_proj (ops : Ops α B) (law : BatLaw ops.bat) (env : Env α) (w : SWorld α B) (gcCurMax : α)
    (nAhead : Int) (vs : List (VInfo α B)) (ts ts' : List (TS α)) (done done' : List (VInfo α B))
    (h : adjustAll ops env w gcCurMax nAhead vs ts done = .ok (ts', done')) :
    done'.map proj = done.map proj ++ (vs.filter (·.departIdx.isSome)).map proj := by
  induction vs generalizing ts done with
  | nil =>
    simp only [adjustAll, Except.ok.injEq, Prod.mk.injEq] at h
    obtain ⟨_, rfl⟩ := h
    simp
  | cons vi rest ih =>
    unfold adjustAll at h
    split at h
    · rename_i hnone
      rw [ih _ _ h]
      simp [List.filter_cons, hnone]
    · rename_i d hd
      split at h
      · cases h
      · rename_i ts1 vi1 hadj
        obtain ⟨_, hvid, harr, hcs', hbat, _, _⟩ := adjustVehicle_spec ops law env w gcCurMax nAhead _ _ _ _ _ hadj
        rw [ih _ _ h]
        have hp : proj vi1 = proj vi := by
          unfold proj
          rw [hvid, harr, hbat, hcs']
        simp [List.filter_cons, hd, hp]

/-- every planned vehicle the apply pass may charge (standing now) is a vehicle of the world connected to the
station it is booked under -/
theorem planned_connected (ops : Ops α B) (law : BatLaw ops.bat) (env : Env α) (events : List (Ev α))
    (hev : EventsAhead env events) (w : SWorld α B) (hu : UniqueVehicles w) (gc : GcS α) (nAhead : Int)
    (arr : List (VInfo α B)) (ts0 ts : List (TS α)) (vehicles : List (VInfo α B))
    (hfc : forecast ops env w events gc nAhead = .ok (arr, ts0))
    (hadj : adjustAll ops env w gc.curMax nAhead (orderVehicles nAhead arr) ts0 [] = .ok (ts, vehicles)) :
    ∀ vi ∈ vehicles, vi.arrivalIdx ≤ 0 →
      ∃ v c, v ∈ w.vehicles ∧ v.id = vi.vid ∧ v.cs = some c ∧ vi.veh.cs.getD "None" = c := by
  have hinv := orderVehicles_inv w nAhead arr (forecast_arr ops env w hu events hev gc nAhead arr ts0 hfc)
  have hproj := adjustAll_proj ops law env w gc.curMax nAhead _ _ _ _ _ hadj
  have hfilter : (orderVehicles nAhead arr).filter (·.departIdx.isSome) = orderVehicles nAhead arr := by
    apply List.filter_eq_self.mpr
    intro vi hvi
    unfold orderVehicles at hvi
    have := (isort_perm _ _).mem_iff.mp hvi
    exact (List.mem_filter.mp this).2
  simp only [List.map_nil, List.nil_append, hfilter] at hproj
  rw [← hproj] at hinv
  intro vi hvi harr
  obtain ⟨hnn, hpres⟩ := hinv.1 (proj vi) (List.mem_map_of_mem hvi)
  obtain ⟨v, c, hv, _, hc1, hc2⟩ := hpres (le_antisymm harr hnn)
  refine ⟨v, c, ?_, vehicle?_id _ _ _ hv, hc2, ?_⟩
  · unfold SWorld.vehicle? at hv
    exact List.mem_of_find?_eq_some hv
  · simp only [proj] at hc1
    rw [hc1]
    rfl

/-! ### the whole `step`: connector after connector -/

theorem setVehicle_ids (w : SWorld α B) (v v' : VehicleS α B) (hid : v'.id = v.id) :
    (w.setVehicle v').vehicles.map (·.id) = w.vehicles.map (·.id) := by
  unfold SWorld.setVehicle
  simp only [List.map_map]
  apply List.map_congr_left
  intro x _
  simp only [Function.comp]
  split
  · rename_i hx
    have : x.id = v'.id := by simpa using hx
    exact this.symm
  · rfl

theorem vehTrace_world (ops : Ops α B) (P : VInfo α B → Prop) (a a' : Acc α B)
    (h : Relation.ReflTransGen (VehStep ops P) a a') :
    a'.world.gcs = a.world.gcs ∧ a'.world.batteries = a.world.batteries ∧
      a'.world.vehicles.map (·.id) = a.world.vehicles.map (·.id) ∧ a'.world.stations = a.world.stations := by
  induction h with
  | refl => exact ⟨rfl, rfl, rfl, rfl⟩
  | tail _ hstep ih =>
    obtain ⟨vi, avg, p, _, _, _, _, vid, v, bat', hv, _, rfl⟩ := hstep
    refine ⟨ih.1, ih.2.1, ?_, ih.2.2.2⟩
    simp only
    rw [setVehicle_ids _ v { v with bat := bat' } rfl]
    exact ih.2.2.1

/-- `step_gc` on a world without stationary batteries: what the world looks like afterwards -/
theorem stepGc_nobat_world (ops : Ops α B) (law : BatLaw ops.bat) (hsat : LoadSat ops) (hsum : SumExact ops)
    (env : Env α) (events : List (Ev α)) (hev : EventsAhead env events) (w w' : SWorld α B)
    (hu : UniqueVehicles w) (hnb : w.batteries = []) (gc : GcS α) (hm0 : 0 ≤ gc.curMax)
    (hmax : gc.currentLoad ≤ gc.curMax) (cmds : List (String × α)) (fc : List α)
    (h : stepGc ops env events w gc = .ok (w', cmds, fc)) :
    UniqueVehicles w' ∧ w'.batteries = [] ∧
      ∃ g', w'.gcs = (w.setGc g').gcs ∧ g'.id = gc.id ∧ g'.curMax = gc.curMax ∧
        gc.currentLoad ≤ g'.currentLoad ∧ g'.currentLoad ≤ gc.curMax := by
  obtain ⟨nAhead, arr, ts0, ts, vehicles, acc1, acc2, ts2, _, hfc, hadj, hap, hfold, hw, _⟩ :=
    stepGc_fold ops env events w w' gc cmds fc h
  rw [hnb] at hfold
  simp only [List.foldlM_nil, pure, Except.pure, Except.ok.injEq, Prod.mk.injEq] at hfold
  obtain ⟨rfl, _⟩ := hfold
  obtain ⟨h1, h2, h3, h4⟩ := vehiclePass_limit ops law hsat hsum env events hev w hu gc hm0 hmax nAhead arr ts0 ts
    vehicles acc1 hfc hadj hap
  have hworld : acc1.world.gcs = w.gcs ∧ acc1.world.batteries = w.batteries ∧
      acc1.world.vehicles.map (·.id) = w.vehicles.map (·.id) := by
    rcases applyPass_trace ops w gc ts vehicles acc1 hap with ⟨_, rfl⟩ | ⟨t0, _, htr⟩
    · exact ⟨rfl, rfl, rfl⟩
    · obtain ⟨a, b, c, _⟩ := vehTrace_world ops _ _ _ htr
      exact ⟨a, b, c⟩
  subst hw
  refine ⟨?_, ?_, acc1.gc, ?_, h4, h3, h1, h2⟩
  · unfold UniqueVehicles SWorld.setGc
    simp only
    rw [hworld.2.2]
    exact hu
  · unfold SWorld.setGc
    simp only
    rw [hworld.2.1, hnb]
  · unfold SWorld.setGc
    simp only
    rw [hworld.1]

/-- **`step` (all connectors) keeps every connector within its limit** — no stationary batteries. -/
theorem step_nobat_limit (ops : Ops α B) (law : BatLaw ops.bat) (hsat : LoadSat ops) (hsum : SumExact ops)
    (env : Env α) (events : List (Ev α)) (hev : EventsAhead env events) (gs : List (GcS α))
    (st st' : SWorld α B × List (String × α) × List α) (hu : UniqueVehicles st.1) (hnb : st.1.batteries = [])
    (hall : ∀ g ∈ st.1.gcs, 0 ≤ g.curMax ∧ g.currentLoad ≤ g.curMax)
    (h : gs.foldlM (fun (st : SWorld α B × List (String × α) × List α) g0 =>
      match st.1.gc? g0.id with
      | none => Except.ok st
      | some gc => do
        let (w', cmds, sched) ← stepGc ops env events st.1 gc
        Except.ok (w', sdUpdate st.2.1 cmds, st.2.2 ++ sched)) st = .ok st') :
    ∀ g ∈ st'.1.gcs, 0 ≤ g.curMax ∧ g.currentLoad ≤ g.curMax := by
  induction gs generalizing st with
  | nil =>
    simp only [List.foldlM_nil, pure, Except.pure, Except.ok.injEq] at h
    subst h
    exact hall
  | cons g0 rest ih =>
    simp only [List.foldlM_cons, bind, Except.bind] at h
    split at h
    · cases h
    · rename_i st1 hst1
      split at hst1
      · simp only [Except.ok.injEq] at hst1
        subst hst1
        exact ih _ hu hnb hall h
      · rename_i gc hgc
        obtain ⟨hgm, _⟩ := gc?_some _ _ _ hgc
        split at hst1
        · cases hst1
        · rename_i r hr
          obtain ⟨w1, cmds1, sched1⟩ := r
          simp only [Except.ok.injEq] at hst1
          subst hst1
          obtain ⟨hb0, hbm⟩ := hall gc hgm
          obtain ⟨hu1, hnb1, g', hgcs, hid, hcm, hlo, hhi⟩ := stepGc_nobat_world ops law hsat hsum env events hev
            st.1 w1 hu hnb gc hb0 hbm cmds1 sched1 hr
          refine ih _ hu1 hnb1 ?_ h
          intro g hg
          simp only at hg
          rw [hgcs] at hg
          rcases mem_setGc _ _ _ hg with rfl | ⟨hm, _⟩
          · rw [hcm]
            exact ⟨hb0, hhi⟩
          · exact hall g hm

/-! ### every returned command lies within its station's headroom (no surplus, one vehicle per station) -/

theorem mem_sdSet {β : Type} (l : List (String × β)) (k : String) (v : β) (kv : String × β)
    (h : kv ∈ sdSet l k v) : kv ∈ l ∨ kv = (k, v) := by
  induction l with
  | nil =>
    simp only [sdSet, List.mem_singleton] at h
    exact Or.inr h
  | cons x xs ih =>
    obtain ⟨xk, xv⟩ := x
    unfold sdSet at h
    split at h
    · rename_i hk
      rcases List.mem_cons.mp h with rfl | h
      · right
        have : xk = k := by simpa using hk
        rw [this]
      · exact Or.inl (List.mem_cons_of_mem _ h)
    · rcases List.mem_cons.mp h with rfl | h
      · exact Or.inl (List.mem_cons_self ..)
      · rcases ih h with h | h
        · exact Or.inl (List.mem_cons_of_mem _ h)
        · exact Or.inr h

theorem sdGet_append_ne {β : Type} (l : List (String × β)) (k k' : String) (v : β) (h : k' ≠ k) :
    sdGet (l ++ [(k, v)]) k' = sdGet l k' := by
  induction l with
  | nil =>
    have : (k == k') = false := by simpa using (Ne.symm h)
    simp [sdGet, this]
  | cons x xs ih =>
    obtain ⟨xk, xv⟩ := x
    simp only [List.cons_append, sdGet, ih]

/-- a command within the headroom of an existing station -/
def GoodCmd (w : SWorld α B) (kv : String × α) : Prop :=
  ∃ cs, w.station? kv.1 = some cs ∧ 0 ≤ kv.2 ∧ kv.2 ≤ max 0 (cs.maxPower - cs.currentPower)

theorem applyVehicles_cmds (ops : Ops α B) (law : BatLaw ops.bat) (w : SWorld α B) (s0 : α)
    (vs : List (VInfo α B)) (used : α) (acc acc' : Acc α B) (hst : acc.world.stations = w.stations)
    (hS : ∀ vi ∈ vs, vi.arrivalIdx ≤ 0 → ∃ c, vi.veh.cs = some c ∧
      (0 < vi.schedule → ∃ cs, w.station? c = some cs) ∧
      ∀ cs, w.station? c = some cs → vi.schedule ≤ max 0 (cs.maxPower - cs.currentPower))
    (hD : vs.Pairwise (fun a b => a.arrivalIdx ≤ 0 → b.arrivalIdx ≤ 0 → a.veh.cs ≠ b.veh.cs))
    (hfree : ∀ vi ∈ vs, vi.arrivalIdx ≤ 0 → ∀ c, vi.veh.cs = some c → sdGet acc.gc.loads c = none)
    (hcm : ∀ kv ∈ acc.cmds, GoodCmd w kv)
    (h : applyVehicles ops s0 vs used acc = .ok acc') : ∀ kv ∈ acc'.cmds, GoodCmd w kv := by
  induction vs generalizing used acc with
  | nil =>
    simp only [applyVehicles, Except.ok.injEq] at h
    subst h
    exact hcm
  | cons vi rest ih =>
    have hS' : ∀ v ∈ rest, v.arrivalIdx ≤ 0 → ∃ c, v.veh.cs = some c ∧
        (0 < v.schedule → ∃ cs, w.station? c = some cs) ∧
        ∀ cs, w.station? c = some cs → v.schedule ≤ max 0 (cs.maxPower - cs.currentPower) :=
      fun v hv => hS v (List.mem_cons_of_mem _ hv)
    have hD' := (List.pairwise_cons.mp hD).2
    have hfree' : ∀ v ∈ rest, v.arrivalIdx ≤ 0 → ∀ c, v.veh.cs = some c → sdGet acc.gc.loads c = none :=
      fun v hv => hfree v (List.mem_cons_of_mem _ hv)
    unfold applyVehicles at h
    split at h
    · exact ih _ _ hst hS' hD' hfree' hcm h
    · rename_i harr
      have harr0 : vi.arrivalIdx ≤ 0 := not_lt.mp harr
      split at h
      · cases h
      · rename_i p hoff
        split at h
        · rename_i hpos
          split at h
          · cases h
          · rename_i v hv
            split at h
            · cases h
            · rename_i bat' avg hl
              simp only at h
              obtain ⟨c, hc, hex, hle⟩ := hS vi (List.mem_cons_self ..) harr0
              obtain ⟨ha0, ha1⟩ := law.load_target _ _ _ _ hl
              rw [max_eq_left hpos.le] at ha1
              -- the station and the bound of the requested power
              have hstat : acc.world.station? = w.station? := by
                funext k; unfold SWorld.station?; rw [hst]
              have hp : ∃ cs, w.station? c = some cs ∧ p ≤ max 0 (cs.maxPower - cs.currentPower) := by
                rcases (offerSurplus_spec _ _ _ _ hoff).1 with rfl | ⟨cs, y, hcs, rfl⟩
                · obtain ⟨cs, hcs⟩ := hex hpos
                  exact ⟨cs, hcs, hle cs hcs⟩
                · rw [hc, hstat] at hcs
                  simp only [Option.bind_some] at hcs
                  refine ⟨cs, hcs, max_le ?_ (hle cs hcs)⟩
                  exact (inHeadroom_bounds cs vi.veh.minChargingPower _ (Or.inr ⟨y, rfl⟩)).2
              obtain ⟨cs, hcs, hpb⟩ := hp
              have hnone : sdGet acc.gc.loads c = none := hfree vi (List.mem_cons_self ..) harr0 c hc
              have hget : vi.veh.cs.getD "None" = c := by rw [hc]; rfl
              rw [hget] at h
              have hadd : acc.gc.addLoad c avg = ({ acc.gc with loads := acc.gc.loads ++ [(c, avg)] }, avg) := by
                unfold GcS.addLoad
                rw [hnone]
              rw [hadd] at h
              refine ih _ _ ?_ hS' hD' ?_ ?_ h
              · exact hst
              · intro vj hvj hj0 c' hc'
                simp only
                have hne : c' ≠ c := by
                  intro he
                  have := (List.pairwise_cons.mp hD).1 vj hvj harr0 hj0
                  apply this
                  rw [hc, hc', he]
                rw [sdGet_append_ne _ _ _ _ hne]
                exact hfree' vj hvj hj0 c' hc'
              · intro kv hkv
                simp only at hkv
                rcases mem_sdSet _ _ _ _ hkv with hkv | rfl
                · exact hcm kv hkv
                · exact ⟨cs, hcs, ha0, le_trans ha1 hpb⟩
        · exact ih _ _ hst hS' hD' hfree' hcm h

/-- world well-formedness for the command theorem: vehicles occupy distinct stations, and the connector's load list
holds no entry of a charging station (the base step removes them at the beginning of every step) -/
def StationsFree (w : SWorld α B) (gc : GcS α) : Prop :=
  (∀ a ∈ w.vehicles, ∀ b ∈ w.vehicles, a.id ≠ b.id → a.cs.isSome → a.cs ≠ b.cs) ∧
  (∀ v ∈ w.vehicles, ∀ c, v.cs = some c → sdGet gc.loads c = none)

/-- **Every command `step_gc` returns lies within its station's headroom** (repaired code: surplus or not) — one
vehicle per station. -/
theorem stepGc_commands (ops : Ops α B) (law : BatLaw ops.bat) (env : Env α)
    (events : List (Ev α)) (hev : EventsAhead env events) (w w' : SWorld α B) (hu : UniqueVehicles w) (gc : GcS α)
    (hfree : StationsFree w gc) (cmds : List (String × α)) (fc : List α)
    (h : stepGc ops env events w gc = .ok (w', cmds, fc)) : ∀ kv ∈ cmds, GoodCmd w kv := by
  obtain ⟨nAhead, arr, ts0, ts, vehicles, acc1, acc2, _, hfc, hadj, hap, hbat, _, hc⟩ :=
    stepGc_shape ops env events w w' gc cmds fc h
  have hc1 : cmds = acc1.cmds := by rw [hc]; exact batteryBooked_cmds ops w gc.id _ _ hbat
  rw [hc1]
  obtain ⟨_, hsched⟩ := adjustAll_spec ops law env w gc.curMax nAhead _ _ _ _ _ (by simp) hadj
  have hinv := orderVehicles_inv w nAhead arr (forecast_arr ops env w hu events hev gc nAhead arr ts0 hfc)
  have hproj := adjustAll_proj ops law env w gc.curMax nAhead _ _ _ _ _ hadj
  have hfilter : (orderVehicles nAhead arr).filter (·.departIdx.isSome) = orderVehicles nAhead arr := by
    apply List.filter_eq_self.mpr
    intro vi hvi
    unfold orderVehicles at hvi
    have := (isort_perm _ _).mem_iff.mp hvi
    exact (List.mem_filter.mp this).2
  simp only [List.map_nil, List.nil_append, hfilter] at hproj
  rw [← hproj] at hinv
  have hpres : ∀ vi ∈ vehicles, vi.arrivalIdx ≤ 0 → ∃ v c, v ∈ w.vehicles ∧ v.id = vi.vid ∧ v.cs = some c ∧
      vi.veh.cs = some c := by
    intro vi hvi harr
    obtain ⟨hnn, hp⟩ := hinv.1 (proj vi) (List.mem_map_of_mem hvi)
    obtain ⟨v, c, hv, _, hc1', hc2⟩ := hp (le_antisymm harr hnn)
    refine ⟨v, c, ?_, vehicle?_id _ _ _ hv, hc2, hc1'⟩
    unfold SWorld.vehicle? at hv
    exact List.mem_of_find?_eq_some hv
  unfold applyPass at hap
  split at hap
  · split at hap
    · cases hap
    · refine applyVehicles_cmds ops law w _ vehicles 0 ⟨w, gc, []⟩ acc1 rfl ?_ ?_ ?_ (by simp) hap
      · intro vi hvi harr
        obtain ⟨v, c, _, _, _, hc'⟩ := hpres vi hvi harr
        refine ⟨c, hc', ?_, ?_⟩
        · intro hpos
          rcases hsched vi hvi with hz | ⟨cs, hcs, _⟩
          · rw [hz] at hpos; exact absurd hpos (lt_irrefl _)
          · rw [hc'] at hcs
            exact ⟨cs, by simpa using hcs⟩
        · intro cs hcs
          rcases hsched vi hvi with hz | ⟨cs0, hcs0, hh⟩
          · rw [hz]; exact le_max_left _ _
          · rw [hc'] at hcs0
            simp only [Option.bind_some] at hcs0
            rw [hcs] at hcs0
            simp only [Option.some.injEq] at hcs0
            subst hcs0
            exact (inHeadroom_bounds cs _ _ hh).2
      · have hpw := hinv.2
        rw [List.pairwise_map] at hpw
        refine List.Pairwise.imp_of_mem ?_ hpw
        intro a b ha hb hab ha0 hb0
        obtain ⟨hna, _⟩ := hinv.1 (proj a) (List.mem_map_of_mem ha)
        obtain ⟨hnb, _⟩ := hinv.1 (proj b) (List.mem_map_of_mem hb)
        obtain ⟨va, ca, hva, hida, hcsa, hca⟩ := hpres a ha ha0
        obtain ⟨vb, cb, hvb, hidb, hcsb, hcb⟩ := hpres b hb hb0
        have hne : va.id ≠ vb.id := by
          rw [hida, hidb]
          exact hab (le_antisymm ha0 hna) (le_antisymm hb0 hnb)
        have := hfree.1 va hva vb hvb hne (by rw [hcsa]; rfl)
        rw [hca, hcb, ← hcsa, ← hcsb]
        exact this
      · intro vi hvi harr c hc'
        obtain ⟨v, c2, hv, _, hcs, hc2⟩ := hpres vi hvi harr
        simp only
        apply hfree.2 v hv c
        rw [hcs, ← hc2, hc']
  · simp only [Except.ok.injEq] at hap
    subst hap
    simp

/-! ### where the hypothesis `EventsAhead` comes from -/

theorem dropWhile_sorted_ahead (now : Int) (l : List (Ev α))
    (hs : l.Pairwise (fun a b => a.start ≤ b.start)) :
    ∀ e ∈ l.dropWhile (fun e => decide (e.start ≤ now)), now < e.start := by
  induction l with
  | nil => simp
  | cons x xs ih =>
    have hx := List.pairwise_cons.mp hs
    simp only [List.dropWhile_cons]
    split
    · exact ih hx.2
    · rename_i hnot
      have hxs : now < x.start := by simpa using hnot
      intro e he
      rcases List.mem_cons.mp he with rfl | he
      · exact hxs
      · exact lt_of_lt_of_le hxs (hx.1 e he)

/-- **With perfect foresight `EventsAhead` holds for every event list that is sorted by start time** — in particular
for `self.events` as `__init__` builds it (`initEvents`) and for every suffix left after popping past events. -/
theorem eventsAhead_of_sorted (env : Env α) (hp : env.perfect = true) (events : List (Ev α))
    (hs : events.Pairwise (fun a b => a.start ≤ b.start)) : EventsAhead env events := by
  intro e he
  unfold visibleEvents at he
  rw [hp] at he
  simp only [if_true] at he
  exact dropWhile_sorted_ahead env.now events hs e ((isort_perm _ _).mem_iff.mp he)

/-- without foresight it is the statement that every queued future event starts after the present step
(`Strategy.step` has consumed the others) -/
theorem eventsAhead_of_future (env : Env α) (hp : env.perfect = false) (events : List (Ev α))
    (hf : ∀ e ∈ events, env.now < e.start) : EventsAhead env events := by
  intro e he
  unfold visibleEvents at he
  rw [hp] at he
  simp only [Bool.false_eq_true, if_false] at he
  exact hf e ((isort_perm _ _).mem_iff.mp he)

theorem initEvents_sorted (horizon scenarioStart : Int) (ves sigs : List (Signalled α))
    (loads gens : List (List (Signalled α))) :
    ((initEvents horizon scenarioStart ves sigs loads gens).1.map (·.ev)).Pairwise
      (fun a b => a.start ≤ b.start) := by
  unfold initEvents
  simp only
  rw [List.pairwise_map]
  have := isort_pairwise (fun (a b : Signalled α) => decide (a.ev.start ≤ b.ev.start))
    (by intro a b c h1 h2; simp only [decide_eq_true_eq] at *; omega)
    (by intro a b; simp only [decide_eq_true_eq]; omega)
  refine (this _).imp ?_
  intro a b hab
  simpa using hab

/-- the toy battery of the examples delivers a positive request exactly or is saturated -/
theorem toyLoadSat : LoadSat toyOps := by
  intro b p q b1 a1 b2 a2 hp hpq h1 h2
  simp only [toyOps, Option.getD_some, Except.ok.injEq, Prod.mk.injEq] at h1 h2
  obtain ⟨_, rfl⟩ := h1
  obtain ⟨_, rfl⟩ := h2
  rw [max_eq_left hp.le, max_eq_left (le_trans hp.le hpq)]
  rcases le_total p (max ((1 - b) * 40) 0) with h | h
  · left; exact min_eq_left h
  · right
    rw [min_eq_right h, min_eq_right (le_trans h hpq)]

end SpiceEv.PeakShaving
