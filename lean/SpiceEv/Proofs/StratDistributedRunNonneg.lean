/-
The greedy / balanced step (`ruleStep`) and distributed's final surplus pass on worlds without generation and V2G:
the step changes nothing of a vehicle but its battery, books only non-negative loads, and the final surplus pass
is the identity.
-/
import SpiceEv.Proofs.StratDistributedRunDefs
set_option linter.unusedSectionVars false
set_option linter.unusedVariables false
set_option linter.unusedSimpArgs false
namespace SpiceEv.DistRun
open SpiceEv SpiceEv.Distrib SpiceEv.Frame
variable {α B : Type} [Field α] [LinearOrder α] [IsStrictOrderedRing α]

/-- what the step never changes of a vehicle -/
def vmeta (v : VehicleS α B) : String × Option String × Bool := (v.id, v.cs, v.v2g)

/-! ### (1) vehicles keep id, station and V2G flag -/

theorem ids_of_vmeta (l l' : List (VehicleS α B)) (h : l.map vmeta = l'.map vmeta) :
    l.map (·.id) = l'.map (·.id) := by
  have := congrArg (List.map (fun t : String × Option String × Bool => t.1)) h
  simpa [List.map_map, vmeta, Function.comp_def] using this

theorem setVehicle_vmeta (w : SWorld α B) (v : VehicleS α B) (b : B)
    (hN : (w.vehicles.map (·.id)).Nodup) (hv : v ∈ w.vehicles) :
    (w.setVehicle { v with bat := b }).vehicles.map vmeta = w.vehicles.map vmeta := by
  unfold SWorld.setVehicle
  simp only [List.map_map]
  apply List.map_congr_left
  intro x hx
  simp only [Function.comp]
  split
  · rename_i hid
    have hid' : x.id = v.id := by simpa using hid
    have : x = v := List.inj_on_of_nodup_map hN hx hv hid'
    subst this
    rfl
  · rfl

/-- the invariant of (1) -/
def VI (w cur : SWorld α B) : Prop := cur.vehicles.map vmeta = w.vehicles.map vmeta

theorem VI_book (w cur : SWorld α B) (hN : (w.vehicles.map (·.id)).Nodup) (v : VehicleS α B) (b : B)
    (g : GcS α) (s : StationS α) (hv : v ∈ cur.vehicles) (h : VI w cur) :
    VI w (((cur.setVehicle { v with bat := b }).setGc g).setStation s) := by
  unfold VI at h ⊢
  have hN' : (cur.vehicles.map (·.id)).Nodup := by rw [ids_of_vmeta _ _ h]; exact hN
  show (cur.setVehicle { v with bat := b }).vehicles.map vmeta = _
  rw [setVehicle_vmeta cur v b hN' hv, h]

theorem allocVehicle_VI (w : SWorld α B) (hN : (w.vehicles.map (·.id)).Nodup)
    (rule : Rule) (ops : BatOps α B) (env : StratEnv α)
    (st st' : SWorld α B × List (String × α) × List (String × α)) (vid : String)
    (hinv : VI w st.1) (h : allocVehicle rule ops env st vid = .ok st') : VI w st'.1 := by
  obtain ⟨v, hv, hc⟩ := allocVehicle_cases rule ops env st st' vid h
  rcases hc with ⟨_, he⟩ | ⟨csId, cs, gc, cheap, power, used, bat', avg, hcs, hst, hgc, _, _, _, he⟩
  · rw [he]; exact hinv
  · rw [he]
    exact VI_book w st.1 hN v bat' _ _ (vehicle?_some _ _ _ hv).1 hinv

theorem surplusBody_VI (w : SWorld α B) (hN : (w.vehicles.map (·.id)).Nodup)
    (ops : BatOps α B) (env : StratEnv α) (cheap : List (String × Bool))
    (st st' : SWorld α B × List (String × α)) (v0 : VehicleS α B) (hinv : VI w st.1)
    (h : surplusBody ops env cheap st v0 = .ok st') : VI w st'.1 := by
  rcases surplusBody_cases ops env cheap st st' v0 h with ⟨_, rfl⟩ | ⟨v, hv, hc⟩
  · exact hinv
  · rcases hc with ⟨_, rfl⟩ | ⟨csId, cs, gc, r, hcs, hst, hgc, hloc, rfl⟩
    · exact hinv
    · cases r with
      | none => exact hinv
      | some t =>
        obtain ⟨bat', d, cur'⟩ := t
        exact VI_book w st.1 hN v bat' _ _ (vehicle?_some _ _ _ hv).1 hinv

theorem batBody_VI (w : SWorld α B) (ops : BatOps α B) (env : StratEnv α) (cheap : List (String × Bool))
    (c c' : SWorld α B) (b0 : StatBatS α B) (hinv : VI w c)
    (h : batBody ops env cheap c b0 = .ok c') : VI w c' := by
  rcases batBody_cases ops env cheap c c' b0 h with ⟨_, rfl⟩ | ⟨b, hb, hc⟩
  · exact hinv
  · rcases hc with ⟨_, rfl⟩ | ⟨gc, isCheap, r, hgc, _, _, rfl⟩
    · exact hinv
    · exact hinv

/-- (1) the greedy / balanced step changes nothing of a vehicle but its battery: the list of (id, station, V2G flag)
is kept -/
theorem ruleStep_vmeta (rule : Rule) (ops : BatOps α B) (env : StratEnv α) (w w' : SWorld α B)
    (cmds : List (String × α)) (hN : (w.vehicles.map (·.id)).Nodup)
    (h : ruleStep rule ops env w = .ok (w', cmds)) : w'.vehicles.map vmeta = w.vehicles.map vmeta := by
  unfold ruleStep at h
  cases ha : availBatPower ops w with
  | error e => simp [ha, bind, Except.bind] at h
  | ok avail =>
    simp only [ha, bind, Except.bind] at h
    cases hf : (sortedVehicleIds (resetStations w)).foldlM (allocVehicle rule ops env)
        (resetStations w, [], avail) with
    | error e => simp [hf] at h
    | ok st1 =>
      obtain ⟨w1, c1, a1⟩ := st1
      simp only [hf] at h
      have h0 : VI w (resetStations w) := rfl
      have h1 : VI w w1 :=
        foldlM_inv (allocVehicle rule ops env) (fun s => VI w s.1)
          (fun s x s' hi hs => allocVehicle_VI w hN rule ops env s s' x hi hs) _ _ (w1, c1, a1) h0 hf
      cases hds : distributeSurplus ops env w1 with
      | error e => simp [hds] at h
      | ok r2 =>
        obtain ⟨w2, c2⟩ := r2
        simp only [hds] at h
        have h2 : VI w w2 := by
          rw [distributeSurplus_unfold] at hds
          cases hc : w1.gcs.mapM (cheapEntry env) with
          | error e => simp [hc, bind, Except.bind] at hds
          | ok cheap =>
            simp only [hc, bind, Except.bind] at hds
            exact foldlM_inv (surplusBody ops env cheap) (fun s => VI w s.1)
              (fun s x s' hi hs => surplusBody_VI w hN ops env cheap s s' x hi hs)
              w1.vehicles (w1, []) (w2, c2) h1 hds
        cases hu : updateBatteries ops env w2 with
        | error e => simp [hu] at h
        | ok w3 =>
          simp only [hu, Except.ok.injEq, Prod.mk.injEq] at h
          obtain ⟨rfl, _⟩ := h
          rw [updateBatteries_unfold] at hu
          cases hc : w2.gcs.mapM (cheapEntry env) with
          | error e => simp [hc, bind, Except.bind] at hu
          | ok cheap =>
            simp only [hc, bind, Except.bind] at hu
            exact foldlM_inv (batBody ops env cheap) (fun s => VI w s)
              (fun s x s' hi hs => batBody_VI w ops env cheap s s' x hi hs)
              w2.batteries w2 w3 h2 hu

/-! ### (2) the load of a connector without negative entries -/

theorem foldl_add_nonneg (l : List (String × α)) (h : ∀ kv ∈ l, 0 ≤ kv.2) :
    ∀ a : α, 0 ≤ a → 0 ≤ l.foldl (fun a kv => a + kv.2) a := by
  induction l with
  | nil => intro a ha; exact ha
  | cons x xs ih =>
    intro a ha
    simp only [List.foldl_cons]
    apply ih (fun kv hkv => h kv (List.mem_cons_of_mem _ hkv))
    have := h x List.mem_cons_self
    linarith

/-- (2) sum of non-negative entries -/
theorem currentLoad_nonneg (g : GcS α) (h : ∀ kv ∈ g.loads, 0 ≤ kv.2) : 0 ≤ g.currentLoad := by
  unfold GcS.currentLoad
  exact foldl_add_nonneg g.loads h 0 (le_refl _)

/-! ### (3) the final surplus pass -/

/-- at a connector that does not feed in, a vehicle without V2G gets no decision of the surplus pass -/
theorem surplusLocal_none (ops : BatOps α B) (env : StratEnv α) (heps : 0 ≤ env.eps)
    (isCheap : Bool) (v : VehicleS α B) (csId : String) (cs : StationS α) (gc : GcS α)
    (r : Option (B × α × α)) (hload : 0 ≤ gc.currentLoad) (hv : v.v2g = false)
    (h : surplusLocal ops env isCheap v csId cs gc = .ok r) : r = none := by
  unfold surplusLocal at h
  simp only at h
  split at h
  · rename_i hsur
    exfalso
    linarith
  · split at h
    · rename_i hc
      obtain ⟨_, _, c3, _⟩ := hc
      rw [hv] at c3
      cases c3
    · simp only [Except.ok.injEq] at h
      exact h.symm

theorem surplusVehicle_noop (ops : BatOps α B) (env : StratEnv α) (heps : 0 ≤ env.eps)
    (cheap : List (String × Bool)) (w w' : SWorld α B) (cmds cmds' : List (String × α)) (v : VehicleS α B)
    (hn : NonNegW w) (hv : v.v2g = false)
    (h : surplusVehicle ops env cheap w cmds v = .ok (w', cmds')) : (w', cmds') = (w, cmds) := by
  rw [surplusVehicle_eq] at h
  cases hcs : v.cs with
  | none => simp only [hcs, Except.ok.injEq] at h; exact h.symm
  | some csId =>
    simp only [hcs] at h
    cases hst : w.station? csId with
    | none => simp [hst] at h
    | some cs =>
      simp only [hst] at h
      cases hgc : w.gc? cs.parent with
      | none => simp [hgc] at h
      | some gc =>
        simp only [hgc] at h
        cases hloc : surplusLocal ops env ((sdGet cheap cs.parent).getD false) v csId cs gc with
        | error e => simp [hloc] at h
        | ok r =>
          simp only [hloc, Except.ok.injEq] at h
          have hl : 0 ≤ gc.currentLoad := currentLoad_nonneg gc (hn gc (gc?_some' _ _ _ hgc).1)
          have := surplusLocal_none ops env heps _ v csId cs gc r hl hv hloc
          subst this
          exact h.symm

/-- (3) without generation and V2G the final surplus pass of `Distributed.step` does nothing -/
theorem finalPass_id (ops : BatOps α B) (env : StratEnv α) (heps : 0 ≤ env.eps)
    (w w' : SWorld α B) (ids : List String) (cmds' : List (String × α)) (hn : NonNegW w) (hv : NoV2G w)
    (h : distributeSurplusOn ops env w ids = .ok (w', cmds')) : w' = w ∧ cmds' = [] := by
  unfold distributeSurplusOn at h
  simp only [bind, Except.bind] at h
  split at h
  · cases h
  · rename_i cheap _
    have := foldlM_inv _ (fun (st : SWorld α B × List (String × α)) => st = (w, [])) ?_ ids (w, [])
      (w', cmds') rfl h
    · simp only [Prod.mk.injEq] at this
      exact this
    · intro st id st' hi hs
      subst hi
      simp only at hs
      split at hs
      · simp only [Except.ok.injEq] at hs; exact hs.symm
      · rename_i v hfind
        obtain ⟨w1, c1⟩ := st'
        exact surplusVehicle_noop ops env heps cheap w w1 [] c1 v hn
          (hv v (vehicle?_some _ _ _ hfind).1) hs

/-! ### (4) only non-negative loads are booked -/

theorem sdGet_some_mem {β : Type} (l : List (String × β)) (k : String) (x : β) (h : sdGet l k = some x) :
    ∃ kv ∈ l, kv.2 = x := by
  induction l with
  | nil => simp [sdGet] at h
  | cons y ys ih =>
    obtain ⟨yk, yv⟩ := y
    simp only [sdGet] at h
    split at h
    · simp only [Option.some.injEq] at h
      exact ⟨(yk, yv), List.mem_cons_self, h⟩
    · obtain ⟨kv, hkv, he⟩ := ih h
      exact ⟨kv, List.mem_cons_of_mem _ hkv, he⟩

theorem sdSet_mem {β : Type} (l : List (String × β)) (k : String) (x : β) :
    ∀ kv ∈ sdSet l k x, kv ∈ l ∨ kv.2 = x := by
  induction l with
  | nil =>
    intro kv hkv
    simp only [sdSet, List.mem_singleton] at hkv
    right; rw [hkv]
  | cons y ys ih =>
    obtain ⟨yk, yv⟩ := y
    intro kv hkv
    simp only [sdSet] at hkv
    split at hkv
    · rcases List.mem_cons.mp hkv with he | hm
      · right; rw [he]
      · left; exact List.mem_cons_of_mem _ hm
    · rcases List.mem_cons.mp hkv with he | hm
      · left; rw [he]; exact List.mem_cons_self
      · rcases ih kv hm with h1 | h2
        · left; exact List.mem_cons_of_mem _ h1
        · right; exact h2

theorem addLoad_nonneg (g : GcS α) (k : String) (d : α) (h : ∀ kv ∈ g.loads, 0 ≤ kv.2) (hd : 0 ≤ d) :
    ∀ kv ∈ (g.addLoad k d).1.loads, 0 ≤ kv.2 := by
  unfold GcS.addLoad
  cases hs : sdGet g.loads k with
  | none =>
    intro kv hkv
    simp only [List.mem_append, List.mem_singleton] at hkv
    rcases hkv with hm | he
    · exact h kv hm
    · rw [he]; exact hd
  | some old =>
    intro kv hkv
    simp only at hkv
    obtain ⟨kv0, hkv0, he0⟩ := sdGet_some_mem _ _ _ hs
    have hold : 0 ≤ old := by rw [← he0]; exact h kv0 hkv0
    rcases sdSet_mem _ _ _ kv hkv with hm | he
    · exact h kv hm
    · rw [he]; linarith

/-- the invariant of (4) -/
def NI (w : SWorld α B) : Prop := NonNegW w ∧ NoV2G w ∧ w.batteries = []

theorem NI_book (w : SWorld α B) (v : VehicleS α B) (b : B) (gc : GcS α) (k : String) (d : α) (s : StationS α)
    (hv : v ∈ w.vehicles) (hg : gc ∈ w.gcs) (hd : 0 ≤ d) (h : NI w) :
    NI (((w.setVehicle { v with bat := b }).setGc (gc.addLoad k d).1).setStation s) := by
  obtain ⟨hn, hv2, hb⟩ := h
  refine ⟨?_, ?_, hb⟩
  · intro g hgm
    have hgm' : g ∈ ((w.setVehicle { v with bat := b }).setGc (gc.addLoad k d).1).gcs := hgm
    rcases mem_setGc (w.setVehicle { v with bat := b }) _ g hgm' with rfl | ⟨hm, _⟩
    · exact addLoad_nonneg gc k d (hn gc hg) hd
    · exact hn g hm
  · intro x hx
    have hx' : x ∈ (w.setVehicle { v with bat := b }).vehicles := hx
    unfold SWorld.setVehicle at hx'
    simp only [List.mem_map] at hx'
    obtain ⟨y, hy, rfl⟩ := hx'
    split
    · exact hv2 v hv
    · exact hv2 y hy

theorem allocVehicle_NI (rule : Rule) (ops : BatOps α B) (law : BatLaw ops) (env : StratEnv α)
    (st st' : SWorld α B × List (String × α) × List (String × α)) (vid : String)
    (hinv : NI st.1) (h : allocVehicle rule ops env st vid = .ok st') : NI st'.1 := by
  obtain ⟨v, hv, hc⟩ := allocVehicle_cases rule ops env st st' vid h
  rcases hc with ⟨_, he⟩ | ⟨csId, cs, gc, cheap, power, used, bat', avg, hcs, hst, hgc, _, _, hcc, he⟩
  · rw [he]; exact hinv
  · rw [he]
    exact NI_book st.1 v bat' gc csId avg _ (vehicle?_some _ _ _ hv).1 (gc?_some' _ _ _ hgc).1
      (chargeCall_nonneg rule ops law env cheap v power bat' avg hcc) hinv

theorem surplusBody_NI (ops : BatOps α B) (law : BatLaw ops) (env : StratEnv α) (cheap : List (String × Bool))
    (st st' : SWorld α B × List (String × α)) (v0 : VehicleS α B) (hinv : NI st.1)
    (h : surplusBody ops env cheap st v0 = .ok st') : NI st'.1 := by
  rcases surplusBody_cases ops env cheap st st' v0 h with ⟨_, rfl⟩ | ⟨v, hv, hc⟩
  · exact hinv
  · rcases hc with ⟨_, rfl⟩ | ⟨csId, cs, gc, r, hcs, hst, hgc, hloc, rfl⟩
    · exact hinv
    · cases r with
      | none => exact hinv
      | some t =>
        obtain ⟨bat', d, cur'⟩ := t
        have hvm := (vehicle?_some _ _ _ hv).1
        obtain ⟨_, hsh⟩ := surplusLocal_shape ops law env _ v csId cs gc bat' d cur' hloc
        have hd : 0 ≤ d := by
          rcases hsh with ⟨p, _, d0, _, _⟩ | ⟨p, ts, avg, _, _, _, _, _, g3, _⟩
          · exact d0
          · rw [hinv.2.1 v hvm] at g3; cases g3
        exact NI_book st.1 v bat' gc csId d _ hvm (gc?_some' _ _ _ hgc).1 hd hinv

/-- (4) without V2G vehicles and stationary batteries the greedy / balanced step only adds non-negative loads -/
theorem ruleStep_nonneg (rule : Rule) (ops : BatOps α B) (law : BatLaw ops) (env : StratEnv α)
    (w w' : SWorld α B) (cmds : List (String × α)) (hb : w.batteries = []) (hn : NonNegW w) (hv : NoV2G w)
    (h : ruleStep rule ops env w = .ok (w', cmds)) : NonNegW w' ∧ NoV2G w' ∧ w'.batteries = [] := by
  unfold ruleStep at h
  cases ha : availBatPower ops w with
  | error e => simp [ha, bind, Except.bind] at h
  | ok avail =>
    simp only [ha, bind, Except.bind] at h
    cases hf : (sortedVehicleIds (resetStations w)).foldlM (allocVehicle rule ops env)
        (resetStations w, [], avail) with
    | error e => simp [hf] at h
    | ok st1 =>
      obtain ⟨w1, c1, a1⟩ := st1
      simp only [hf] at h
      have h0 : NI (resetStations w) := ⟨hn, hv, hb⟩
      have h1 : NI w1 :=
        foldlM_inv (allocVehicle rule ops env) (fun s => NI s.1)
          (fun s x s' hi hs => allocVehicle_NI rule ops law env s s' x hi hs) _ _ (w1, c1, a1) h0 hf
      cases hds : distributeSurplus ops env w1 with
      | error e => simp [hds] at h
      | ok r2 =>
        obtain ⟨w2, c2⟩ := r2
        simp only [hds] at h
        have h2 : NI w2 := by
          rw [distributeSurplus_unfold] at hds
          cases hc : w1.gcs.mapM (cheapEntry env) with
          | error e => simp [hc, bind, Except.bind] at hds
          | ok cheap =>
            simp only [hc, bind, Except.bind] at hds
            exact foldlM_inv (surplusBody ops env cheap) (fun s => NI s.1)
              (fun s x s' hi hs => surplusBody_NI ops law env cheap s s' x hi hs)
              w1.vehicles (w1, []) (w2, c2) h1 hds
        cases hu : updateBatteries ops env w2 with
        | error e => simp [hu] at h
        | ok w3 =>
          simp only [hu, Except.ok.injEq, Prod.mk.injEq] at h
          obtain ⟨rfl, _⟩ := h
          rw [updateBatteries_unfold] at hu
          cases hc : w2.gcs.mapM (cheapEntry env) with
          | error e => simp [hc, bind, Except.bind] at hu
          | ok cheap =>
            simp only [hc, bind, Except.bind, h2.2.2, List.foldlM_nil, pure, Except.pure,
              Except.ok.injEq] at hu
            subst hu
            exact h2

end SpiceEv.DistRun
