"""C01 — battery SoC stays in bounds and energy is conserved on every (dis)charge.

Correspondence: real `Battery` objects built through `components.Vehicle` / `StationaryBattery`
(so the glue — default discharge curve, 2**64 capacity, default efficiency — is covered) against the
Lean model on `Float`, bit-level: EPS, and per call avg_power, soc_delta, final SoC or error kind.
Oracle (Python, independent of both): the clauses of the property on the implementation's outputs
with the tolerances of DESIGN §8.
"""
import math
import random

import engine
import battery_common as bc
from battery_common import UNLIMITED

PID = "C01"
RULE = ("batteries from a shape grammar (1-6 sections: constant, taper, rise, plateau, zero at either "
        "end or inside, near-flat |m|~EPS, very narrow sections; int and float points), built through "
        "components.Vehicle (default/explicit v2g factor, explicit discharge curve) or StationaryBattery "
        "(incl. capacity -1 = 2**64 kWh with a constant curve); capacity log-uniform 0.5-1000 kWh; "
        "efficiency in (0,1] or default; SoC in [-0.5,1] with mass on 0, 1, breakpoints +-1 ulp; 1-3 "
        "consecutive calls (load/unload/get_available_power) with durations 0, 1 us .. 5 days and every "
        "admissible combination of max_power (None, 0, curve values, above max) / target_soc (=soc, "
        "soc+-EPS fractions, 0, 1, beyond 1 / below 0, breakpoints) / target_power (0, tiny, above max); "
        "separate malformed stream (both targets, SoC > 1, negative duration/limit/efficiency, malformed "
        "curves) where only error kinds are compared. non-trivial = a call that transfers energy or hits "
        "a zero-power/early-return branch on an admissible input; distinct = distinct case")
ASSUMPTIONS = [
    "admissible input: well-formed curves (SoC strictly increasing 0..1, powers >= 0), capacity > 0, "
    "0 < efficiency <= 1, duration >= 0, limit >= 0 or absent, -0.5 <= start SoC <= 1 (theorems: -1 <= SoC), "
    "target_power >= 0, not both target_soc and target_power",
    "theorems are over the reals with EPS > 0 arbitrary; IEEE rounding is covered by the bit-level "
    "correspondence and the tolerant oracle only",
    "avg <= limit holds up to EPS/efficiency: on a near-flat section (|slope| < EPS) the code charges "
    "with the line's intercept n = y1 - m*x1 instead of the curve value (deviation < EPS = 1e-5/capacity kW)",
]
UNPROVED = [
    "avg_power <= sup of the curve on [soc, soc'] (only avg <= limit + EPS/eta is a theorem; the "
    "curve-sup bound is checked by the oracle)",
    "Float rounding gap (absorption on the 2**64 kWh battery: energy identity checked to 1 ulp of SoC*c)",
]
CHUNK = 100

engine.use_repo()


def gen_cases(tier, seed):
    rnd = random.Random(seed * 7919 + 101)
    # fixed regression cases first (D2 / D3 and the documented examples)
    rising = [[0.0, 0.0], [1.0, 350.0]]
    for us in (1, 60 * 10 ** 6, 3600 * 10 ** 6, 86400 * 10 ** 6, 5 * bc.DAY_US):
        yield {"kind": "V", "cap": 50.0, "eff": 0.95, "soc": 0.0, "pts": rising, "dis": None,
               "ops": [["L", us, None, None, None]]}
        yield {"kind": "V", "cap": 50.0, "eff": 0.95, "soc": 0.5, "pts": [[0.0, 11.0], [1.0, 11.0]],
               "dis": {"C": [[0.0, 11.0], [0.5, 0.0], [1.0, 0.0]]}, "ops": [["U", us, None, None, None]]}
        yield {"kind": "S", "cap": -1.0, "eff": 0.95, "soc": 0.5, "pts": [[0.0, 50.0], [1.0, 50.0]],
               "dis": None, "ops": [["L", us, None, None, None], ["U", us, None, None, None]]}
        yield {"kind": "V", "cap": 50.0, "eff": 0.95, "soc": 0.3, "pts": [[0.0, 11.0], [0.8, 11.0], [1.0, 2.0]],
               "dis": None, "ops": [["L", us, None, None, None], ["A", us, None, None, None],
                                    ["U", us, 5.0, None, None]]}
    n = 40000 if tier == "quick" else 600000
    for _ in range(n):
        case = bc.gen_battery(rnd)
        ops = []
        hint = case["soc"]
        for _ in range(rnd.choice([1, 1, 2, 3])):
            op = bc.gen_op(rnd, case, hint)
            ops.append(op)
            hint = None if op[0] == "A" else rnd.random()
            if hint is None:
                hint = case["soc"]
        case["ops"] = ops
        yield case
    # malformed stream
    nb = 3000 if tier == "quick" else 30000
    for _ in range(nb):
        case = bc.gen_battery(rnd)
        op = bc.gen_op(rnd, case, case["soc"], kinds="LU")
        w = rnd.randrange(9)
        if w == 0:
            op[3], op[4] = rnd.random(), rnd.uniform(0, 20)
        elif w == 1:
            case["soc"] = rnd.choice([1.0 + 1e-9, 1.5, bc.ulp_up(1.0), 2.0])
        elif w == 2:
            op[1] = -rnd.choice([1, 10 ** 6, 3600 * 10 ** 6])
        elif w == 3:
            op[2] = -rnd.uniform(0, 10)
        elif w == 4:
            case["eff"] = rnd.choice([0.0, -0.5, 1.5, 2.0])
        elif w == 5:
            op[3], op[4] = None, -rnd.uniform(0, 20)
        elif w == 6:
            pts = [list(p) for p in case["pts"]]
            q = rnd.randrange(4)
            if q == 0:
                pts[-1][0] = 0.9
            elif q == 1:
                pts[0][0] = 0.1
            elif q == 2:
                pts.append([rnd.random(), -5.0])
            else:
                pts = pts[:1]
            case["pts"] = pts
        elif w == 7:
            case["soc"] = rnd.uniform(-3.0, -0.5)
        else:
            case["cap"] = 0.0
        case["ops"] = [op]
        case["bad"] = 1
        yield case


def admissible(case):
    if case.get("bad"):
        return False
    if not bc.wf_curve(sorted(tuple(p) for p in case["pts"])):
        return False
    d = case.get("dis")
    if d and "C" in d and not bc.wf_curve(sorted(tuple(p) for p in d["C"])):
        return False
    eff = bc.eff_of(case)
    return bc.capacity_of(case) > 0 and 0 < eff <= 1 and -0.5 <= case["soc"] <= 1


def check_record(case, rec, viol, stats):
    """the property's clauses on one call of the real code"""
    k, us, mp, ts, tp = rec["op"]
    c = bc.capacity_of(case)
    eta = bc.eff_of(case)
    eps = 1e-5 / c
    T = us / 10 ** 6 / 3600
    soc = rec["before"]
    cfn, dfn, cbrk, dbrk = bc.curves_of(case)
    fn = cfn if k == "L" else dfn
    brk = cbrk if k == "L" else dbrk
    limit = bc.default_limit(case, "L" if k == "L" else "U") if mp is None else mp
    # battery-side power the clamped curve offers at the current SoC
    p_here = min(fn(soc), limit) * (eta if k == "L" else 1 / eta)
    unlimited = c == UNLIMITED
    kb = eta if k == "L" else 1 / eta          # terminal power -> battery-side power

    def cancel_scale(a, b):
        """SoC resolution of the closed form `-n/m + (n/m + soc)*exp(..)` on the sections between a
        and b: the terms are of size n/m, so on a nearly flat section (EPS <= |m| tiny) the result
        carries an absolute error of a few ulp(n/m)"""
        lo, hi = min(a, b), max(a, b)
        xs = sorted(set([lo, hi] + [x for x in brk if lo < x < hi]
                        + [max([x for x in brk if x < lo] or [0.0]), min([x for x in brk if x > hi] or [1.0])]))
        worst = 0.0
        for x0, x1 in zip(xs, xs[1:]):
            if x1 - x0 <= 0:
                continue
            y0, y1 = kb * min(fn(x0), limit), kb * min(fn(x1), limit)
            worst = max(worst, bc.formula_scale(y0, y1, x1 - x0, eps, x0))
        return worst
    if ts is not None:
        tgt_ = ts
    elif tp is not None and T >= 0:
        tgt_ = soc + tp * eta * T / c if k == "L" else soc - tp / eta * T / c
    else:
        tgt_ = 1.0 if k == "L" else 0.0
    tgt_ = min(1.0, tgt_) if k == "L" else max(min(soc, 0.0), tgt_)
    sgn_ = 1.0 if k == "L" else -1.0

    def scale_upto(upto):
        return max(cancel_scale(soc, upto), bc.chord_scale(fn, brk, limit, kb, eps, soc, tgt_, sgn_, upto))
    if "error" in rec:
        s_err = rec.get("soc_at_error", soc)
        p_err = min(fn(min(s_err, 1.0)), limit) * (eta if k == "L" else 1 / eta)
        cs_err = scale_upto(min(s_err, 1.0))
        if unlimited:
            key = "C01:unlimited_battery_absorption"
        elif rec["error"] == "AssertionError" and cs_err > 1e-13:
            key = "C01:nearflat_exponential_cancellation"
            stats.append("nearflat_cancellation")
        elif p_here < eps or p_err < eps:
            key = "C01:zero_power_rising_section"
        else:
            key = "C01:%s_raises_%s" % ({"L": "load", "U": "unload", "A": "available"}[k], rec["error"])
        viol.append(("completes_without_error", key,
                     "%s raised %s at soc=%r T=%rh limit=%r" % (k, rec["error"], soc, T, limit)))
        stats.append("error_" + rec["error"])
        return False
    after, avg, delta = rec["after"], rec["avg"], rec["delta"]
    tol_s = 1e-12

    cscale = scale_upto(after)

    def soc_key(key, excess):
        if 1e-13 < cscale and excess <= cscale:
            stats.append("nearflat_cancellation")
            return "C01:nearflat_exponential_cancellation"
        return key
    if k == "A":
        if after != soc:
            viol.append(("available_pure", "C01:available_power_changes_soc", "%r -> %r" % (soc, after)))
        # value = what unload would deliver
        if not (avg >= 0):
            viol.append(("avg_nonneg", "C01:available_negative", repr(avg)))
        return avg > 0
    # requested target
    if ts is not None:
        target = ts
    elif tp is not None:
        target = soc + tp * eta * T / c if k == "L" else soc - tp / eta * T / c
    else:
        target = 1.0 if k == "L" else 0.0
    moved = after != soc
    if k == "L":
        hi = max(soc, min(1.0, target))
        if after > 1.0 and soc <= 1.0:
            # "never raises it above 100 %": the final SoC is clamped with min(soc, 1), so the bound is exact in
            # doubles too (a SoC one ulp above 1 makes the next request on the full battery raise)
            viol.append(("load_soc", "C01:load_soc_above_one", "%r -> %r" % (soc, after)))
        if after < soc - tol_s:
            viol.append(("load_soc", "C01:load_lowers_soc", "%r -> %r" % (soc, after)))
        if after > hi + tol_s + (2 * math.ulp(1.0) if tp is not None else 0):
            viol.append(("load_soc", soc_key("C01:load_soc_above_target_or_1", after - hi),
                         "%r -> %r, bound %r" % (soc, after, hi)))
        if delta != after - soc:
            viol.append(("delta_reported", "C01:load_delta_reported", "%r vs %r" % (delta, after - soc)))
        stored = (after - soc) * c
        e_term = avg * T * eta
    else:
        tau = max(min(soc, 0.0), target)
        lo = min(soc, tau)
        if after > soc + tol_s:
            viol.append(("unload_soc", "C01:unload_raises_soc", "%r -> %r" % (soc, after)))
        if after < lo - tol_s - (2 * math.ulp(1.0) if tp is not None else 0):
            viol.append(("unload_soc", soc_key("C01:unload_soc_below_target_or_0", lo - after),
                         "%r -> %r, bound %r" % (soc, after, lo)))
        if soc < 0 and after != soc:
            viol.append(("unload_soc", "C01:unload_negative_soc_changed", "%r -> %r" % (soc, after)))
        if delta != soc - after:
            viol.append(("delta_reported", "C01:unload_delta_reported", "%r vs %r" % (delta, soc - after)))
        stored = (soc - after) * c
        e_term = avg * T / eta
    # energy identity
    E = abs(stored)
    tol_e = 1e-9 * max(1.0, E)
    if unlimited:
        tol_e = max(tol_e, math.ulp(max(abs(soc), abs(after))) * c)
    if not abs(e_term - stored) <= tol_e:
        viol.append(("energy", soc_key("C01:%s_energy_identity" % ("load" if k == "L" else "unload"),
                                       abs(e_term - stored) / c),
                     "avg*T*%s=%r stored=%r (soc %r -> %r, c=%r)" %
                     ("eta" if k == "L" else "1/eta", e_term, stored, soc, after, c)))
    # average power bounds
    if not avg >= 0:
        viol.append(("avg_bounds", "C01:avg_negative", repr(avg)))
    slack = 1e-9 * max(1.0, abs(limit)) + eps / eta
    if T > 0:
        # resolution of the SoC: the energy is |new_soc - soc| * c, and new_soc comes out of a closed
        # form whose terms are of size max(|soc|, |n/m|) (cscale); beyond 1e-13 the excess is keyed
        # as the near-flat cancellation finding, it is not tolerated here
        slack += max(4 * math.ulp(max(abs(soc), abs(after))), min(cscale, 1e-13)) * c / (T * kb)
    if unlimited:
        slack += tol_e / max(T, 1e-300)
    to_soc = T * kb / c                          # excess power -> excess SoC over the call
    if not avg <= limit + slack:
        viol.append(("avg_bounds", soc_key("C01:avg_above_limit", (avg - limit) * to_soc),
                     "avg=%r limit=%r" % (avg, limit)))
    sup = bc.sup_power(fn, brk, soc, after, limit)
    # positions are resolved to EPS only (a boundary within EPS of the SoC counts as reached), so the
    # curve is only resolved to slope*EPS around the traversed range
    lo_, hi_ = min(soc, after), max(soc, after)
    xs_ = sorted(set([max(lo_ - 2 * eps, 0.0), min(hi_ + 2 * eps, 1.0)]
                     + [x for x in brk if lo_ - 2 * eps < x < hi_ + 2 * eps]))
    slope_ = max([abs(min(fn(b_), limit) - min(fn(a_), limit)) / (b_ - a_)
                  for a_, b_ in zip(xs_, xs_[1:]) if b_ > a_] or [0.0])
    if not avg <= sup + slack + 2 * slope_ * eps:
        key = soc_key("C01:avg_above_curve", (avg - sup) * to_soc)
        if k == "L" and soc < 0 and key == "C01:avg_above_curve":
            # below SoC 0 the lookup is the first point's power, but the integration uses the straight
            # line from (soc, P(0)) to the first boundary: more than the curve when the curve rises
            x1 = min([x for x in brk if x > 0] or [1.0])
            if avg <= bc.sup_power(fn, brk, soc, max(after, x1), limit) + slack:
                key = "C01:negative_soc_rising_first_section"
                stats.append("negative_soc_line")
        viol.append(("avg_bounds", key, "avg=%r sup curve=%r on [%r,%r]" % (avg, sup, soc, after)))
    # zero power at the current SoC: nothing is transferred
    if p_here < eps * (1 - 1e-9):
        stats.append("zero_power_here")
        if moved or avg != 0:
            viol.append(("zero_power_nothing", "C01:zero_power_rising_section",
                         "curve offers %r kW < EPS at soc=%r but avg=%r, soc -> %r" % (p_here, soc, avg, after)))
    if T == 0 and (moved or avg != 0):
        viol.append(("zero_time_nothing", "C01:zero_duration_transfers", "avg=%r" % avg))
    # branch statistics
    if not moved:
        stats.append("no_transfer")
    else:
        n_cross = sum(1 for x in brk if min(soc, after) < x < max(soc, after))
        stats.append("sections_crossed_%d" % min(n_cross, 3))
        if abs(after - (max(soc, min(1.0, target)) if k == "L" else min(soc, max(min(soc, 0.0), target)))) <= 2 * eps:
            stats.append("target_reached")
        else:
            stats.append("time_ran_out")
    if soc < 0:
        stats.append("negative_soc")
    if unlimited:
        stats.append("unlimited")
    return moved or p_here < eps


def eval_case(case):
    ops = [tuple(o) for o in case["ops"]]
    line = bc.proto_line(case, ops)
    impl, recs, _ = bc.run_ops(case, ops)
    viol, stats = [], []
    nontrivial = False
    if admissible(case):
        if not recs and impl.startswith("!"):
            viol.append(("constructor", "C01:constructor_raises", impl))
        soc_ok = True
        for rec in recs:
            k, us, mp, ts, tp = rec["op"]
            ok_op = (us >= 0 and (mp is None or mp >= 0) and not (ts is not None and tp is not None)
                     and (tp is None or tp >= 0) and -0.5 <= rec["before"] <= 1)
            if not ok_op:
                break
            stats.append({"L": "load", "U": "unload", "A": "available"}[k])
            if check_record(case, rec, viol, stats):
                nontrivial = True
    else:
        stats.append("malformed")
    return {"lines": [line], "impl": [impl], "violations": viol, "nontrivial": nontrivial, "stats": stats}


compare = bc.compare_bits


def search_cases(seed, disagreements):
    """wider search when only proof/correspondence broke: the disagreeing inputs with varied
    durations / limits / SoCs first, then the thorough generator"""
    rnd = random.Random(seed + 5)
    for d in disagreements[:50]:
        base = d["case"]
        if base.get("bad"):
            continue
        for _ in range(200):
            c = dict(base)
            c["soc"] = rnd.choice([base["soc"], bc.gen_soc(rnd, base)])
            c["ops"] = [bc.gen_op(rnd, c, c["soc"], kinds=o[0]) for o in base["ops"]]
            yield c
    yield from gen_cases("thorough", seed + 7919)
