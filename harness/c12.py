"""C12 — electricity costs follow the tariff rules of the price sheet.

Correspondence (exact): the real `spice_ev.costs.calculate_costs` is run on exact rationals — the
price sheet is a real JSON file read through `json.load` with `parse_float/parse_int` producing `Q`
(only the `json.load`/`json.dump` functions are wrapped for the duration of the call; the code under
test is unchanged) and `interval` is a duck-typed timedelta with exact `total_seconds()` — against
the Lean model `SpiceEv.Costs.calculateCostsRaw` + `roundResult`/`jsonSection` on `Rat`: equality of
the returned dict, of the numeric leaves of the "costs" section written to the results JSON and of
the exception kind.  A float stream runs the real code on plain floats (real `json`, real
`timedelta`, `read_simulation_csv`, and `simulate.simulate` end to end) and compares with the model
evaluated on the exact values of those floats (tolerance, boundary cases counted and skipped).

Oracle (Python, exact, independent of the model), evaluated on the IMPLEMENTATION's outputs:
  * an independent restatement of the documented composition (`spec_costs`: tariff class, bracket,
    energy-proportional components, peak per scheme, VAT, feed-in, annualisation);
  * the metamorphic sentences: profile repeated k times => same annual values; every step split into
    two equal halves => same result; other timestamps => same result.
"""
import datetime
import json
import os
import random
import tempfile
from fractions import Fraction as F

import engine
from exact import Q
from wire import canon, err

PID = "C12"
RULE = ("systematic sweep: 7 schemes x 5 voltage levels x fee type None/SLP/RLM x PV bracket on short "
        "profiles with the JSON section; random profiles (4-2000 steps quick, up to 35040 thorough; "
        "interval 5/10/15/30/60 and 25/40/45/90 min (not dividing the hour); W..MW scale; with/without feed-in, windows, schedules, price "
        "lists); price sheets with every entry perturbed; boundary inputs constructed exactly "
        "(energy = 100000 kWh/a and +-eps, utilisation = 2500 h/a and +-eps, PLW significance = "
        "threshold and peak difference = 100 kW and +-eps, PV size at 10/40/100 kWp and +-eps); a "
        "malformed stream (length mismatches, zero steps, zero interval, unknown voltage level / fee "
        "type / scheme, missing grid operator) where only the exception kind is compared; a float "
        "stream through read_simulation_csv and simulate.simulate. non-trivial = well-formed case "
        "with non-zero grid supply; distinct = distinct case descriptions")
ASSUMPTIONS = [
    "well-formed input: all series have len(timestamps) entries, at least one step, interval > 0, "
    "voltage level in the price sheet, price sheet structurally complete with the PV brackets "
    "ascending",
    "exact arithmetic on both sides (fractions.Fraction vs Lean Rat); the float evaluation of the "
    "same formulas is compared with the exact model with a tolerance of one cent per rounded term "
    "near a rounding boundary and 1e-9 relative otherwise",
]
UNPROVED = [
    "every sentence of C12 has a theorem about the model (C12_refines … C12_round_cents); not theorems: "
    "the tie between model and Python code, the JSON section written to disk, the float evaluation of the "
    "same formulas and the exception kinds on malformed input (all four: correspondence run only)",
]
TRUSTED = ["harness/c12.py: json.load/json.dump wrappers, the duck-typed interval, the adapters that "
           "flatten the results JSON, and the Python restatement spec_costs used as oracle"]
CHUNK = 24

engine.use_repo()

VLS = ["HV", "HV/MV", "MV", "MV/LV", "LV", "eHV", "eHV/HV"]
SCHEMES = ["fixed_wo_plw", "fixed_w_plw", "variable_wo_plw", "variable_w_plw",
           "balanced_market", "flex_window", "schedule"]
INFO = "no differentiation between fixed and flexible load"
YEAR_S = 365 * 24 * 3600


# ------------------------------------------------------------------------------------------
# price sheet

_BASE = {}


def base_sheet():
    """the grid operator section of $VERIF_REPO/examples/data/price_sheet.json, parsed exactly"""
    if "s" not in _BASE:
        p = engine.REPO / "examples" / "data" / "price_sheet.json"
        with open(p) as f:
            doc = json.load(f, parse_float=lambda s: F(s), parse_int=lambda s: F(s))
        _BASE["s"] = doc["default_grid_operator"]
    return _BASE["s"]


NUM_PATHS = None


def _num_paths(d, pre=()):
    out = []
    for k, v in d.items():
        if isinstance(v, dict):
            out += _num_paths(v, pre + (k,))
        elif isinstance(v, list):
            for i, x in enumerate(v):
                out.append(pre + (k, i))
        elif isinstance(v, F):
            out.append(pre + (k,))
    return out


def _copy(d):
    if isinstance(d, dict):
        return {k: _copy(v) for k, v in d.items()}
    if isinstance(d, list):
        return [_copy(v) for v in d]
    return d


def _set(d, path, val):
    for k in path[:-1]:
        d = d[k]
    d[path[-1]] = val


def build_sheet(spec):
    """spec: None (grid operator missing) | {"perturb": seed or None, "mods": {"a|b|c": "num"}}"""
    if spec is None:
        return None
    s = _copy(base_sheet())
    if spec.get("perturb") is not None:
        rnd = random.Random(spec["perturb"])
        for p in _num_paths(s):
            if p[-2:-1] == ("kWp",):
                continue
            if p[-1] == "value_added_tax":
                _set(s, p, F(rnd.choice([0, 7, 19, 20, 25])) + F(rnd.randint(0, 9), 10))
            elif p[-1] == "deviation_tolerance":
                _set(s, p, F(rnd.randint(0, 50), 100))
            elif "significance_threshold" in p:
                _set(s, p, F(rnd.randint(0, 600), 10))
            else:
                _set(s, p, F(rnd.randint(0, 20000), 1000))
        ks = sorted(rnd.sample(range(1, 3000), 3))
        s["feed-in_remuneration"]["PV"]["kWp"] = [F(k, 10) for k in ks]
    for path, val in (spec.get("mods") or {}).items():
        pp = [int(x) if x.isdigit() else x for x in path.split("|")]
        _set(s, pp, F(val))
    if spec.get("pvcut") is not None:
        pvd = s["feed-in_remuneration"]["PV"]
        pvd["kWp"] = pvd["kWp"][: spec["pvcut"]]
        pvd["remuneration"] = pvd["remuneration"][: spec["pvcut"]]
    return s


def _dec(x):
    """exact decimal literal of a rational with a power-of-ten-compatible denominator"""
    x = F(x)
    if x.denominator == 1:
        return str(x.numerator)
    d, k = x.denominator, 0
    while d % 10 == 0:
        d //= 10
        k += 1
    k2 = k5 = 0
    while d % 2 == 0:
        d //= 2
        k2 += 1
    while d % 5 == 0:
        d //= 5
        k5 += 1
    if d != 1:
        raise ValueError("not a decimal: %s" % x)
    k += max(k2, k5)
    n = x * 10 ** k
    assert n.denominator == 1
    s = str(abs(n.numerator)).rjust(k + 1, "0")
    return ("-" if x < 0 else "") + s[:-k] + "." + s[-k:]


def sheet_json_text(sheet, operator="default_grid_operator"):
    """JSON text of a price sheet; numbers as exact decimal literals"""
    def ser(v):
        if isinstance(v, dict):
            return "{" + ", ".join(json.dumps(k) + ": " + ser(x) for k, x in v.items()) + "}"
        if isinstance(v, list):
            return "[" + ", ".join(ser(x) for x in v) + "]"
        if isinstance(v, F):
            return _dec(v)
        return json.dumps(v)
    return "{" + json.dumps(operator) + ": " + ser(sheet) + "}"


def sheet_wire(s):
    if s is None:
        return "N"
    g = s["grid_fee"]
    lv = VLS[:5]

    def tbl(d, keys):
        return "%d %s" % (len(keys), " ".join(str(d[k]) for k in keys))
    lo, hi = g["RLM"]["<2500_h/a"], g["RLM"][">=2500_h/a"]
    lev = s["levies"]
    fr = s["feed-in_remuneration"]
    sr = s["strategy_related"]
    sig = sr["peak_load_window"]["significance_threshold"]
    toks = ["S", str(g["SLP"]["basic_charge_EUR/a"]["net_price"]),
            str(g["SLP"]["commodity_charge_ct/kWh"]["net_price"]),
            tbl(lo["commodity_charge_ct/kWh"], lv), tbl(lo["capacity_charge_EUR/kW*a"], lv),
            tbl(hi["commodity_charge_ct/kWh"], lv), tbl(hi["capacity_charge_EUR/kW*a"], lv),
            str(g["RLM"]["additional_costs"]["costs"]), str(s["power_procurement"]["charge"]),
            str(lev["EEG_levy"]), str(lev["chp_levy"]), str(lev["individual_charge_levy"]),
            str(lev["offshore_levy"]), str(lev["interruptible_loads_levy"]),
            str(s["concession_fee"]["charge"]), str(s["taxes"]["value_added_tax"]),
            str(s["taxes"]["tax_on_electricity"]),
            "%d %s" % (len(fr["PV"]["kWp"]), " ".join(str(x) for x in fr["PV"]["kWp"])),
            "%d %s" % (len(fr["PV"]["remuneration"]), " ".join(str(x) for x in fr["PV"]["remuneration"])),
            str(fr["V2G"]), str(fr["battery"]),
            tbl(sig, [k for k in VLS if k in sig]),
            str(sr["schedule"]["reduction_of_commodity_charge"]), str(sr["schedule"]["deviation_charge"]),
            str(sr["schedule"]["deviation_tolerance"])]
    return " ".join(toks)


# ------------------------------------------------------------------------------------------
# case construction

def fs(x):
    return str(F(x))


def _profile(rnd, n, scale, den, shape):
    """non-negative rational profile (kW), denominators bounded by `den`"""
    top = max(1, int(scale * den))
    if shape == "flat":
        v = rnd.randint(0, top)
        return [F(v, den)] * n
    if shape == "sparse":
        return [F(rnd.randint(0, top), den) if rnd.random() < 0.2 else F(0) for _ in range(n)]
    if shape == "day":
        per = rnd.choice([24, 48, 96, 288])
        base = [rnd.randint(0, top) for _ in range(per)]
        return [F(base[i % per], den) for i in range(n)]
    return [F(rnd.randint(0, top), den) for _ in range(n)]


def make_case(seed, n=None, scheme=None, vl=None, fee="rand", pv="rand", sheet="rand", js=None,
              boundary=None, malformed=None, minutes=None):
    """deterministic explicit case from a sub-seed and a few overrides"""
    rnd = random.Random(seed)
    scheme = scheme or rnd.choice(SCHEMES)
    vl = vl or rnd.choice(VLS[:5])
    minutes = minutes or rnd.choice([5, 10, 15, 30, 60, 45, 40, 25, 90])
    if n is None:
        n = rnd.choice([4, 5, 7, 8, 12, 24, 48, 96, 97, 192, 288, 500, 672, 1000, 2000])
    if fee == "rand":
        fee = rnd.choice([None, None, "SLP", "RLM"])
    scale = rnd.choice([F(1, 100), F(1), F(11), F(50), F(300), F(2000), F(20000)])
    den = rnd.choice([1, 2, 4, 8, 10, 100, 1000])
    shape = rnd.choice(["rand", "rand", "flat", "sparse", "day"])
    draw = _profile(rnd, n, scale, den, shape)
    # grid supply series: negative = drawn from the grid; sometimes positive (feed-in) entries
    supply = [-x for x in draw]
    if rnd.random() < 0.3:
        for i in range(n):
            if rnd.random() < 0.15:
                supply[i] = F(rnd.randint(0, 50), den)
    fmode = rnd.choice(["zero", "below", "rand", "above", "neg"])
    if fmode == "zero":
        fix = [F(0)] * n
    elif fmode == "below":
        fix = [x * F(rnd.randint(0, 10), 10) for x in draw]
    elif fmode == "above":
        fix = [x + F(rnd.randint(0, 30), den) for x in draw]
    elif fmode == "neg":
        fix = [F(rnd.randint(-20, 20), den) for _ in range(n)]
    else:
        fix = _profile(rnd, n, scale / 2, den, "rand")

    def feed(p):
        if rnd.random() < p:
            return None
        if rnd.random() < 0.3:
            return [F(0)] * n
        return [F(rnd.randint(0, 200), den) if rnd.random() < 0.4 else F(0) for _ in range(n)]
    gen, v2g, bat = feed(0.3), feed(0.5), feed(0.5)
    wmode = rnd.choice(["none", "rand", "all", "nonelist", "zero", "block"])
    if scheme == "flex_window" and wmode == "none":
        wmode = "rand"
    if wmode == "none":
        window = None
    elif wmode == "all":
        window = [1] * n
    elif wmode == "zero":
        window = [0] * n
    elif wmode == "nonelist":
        window = [None] * n
    elif wmode == "block":
        a, b = sorted([rnd.randint(0, n), rnd.randint(0, n)])
        window = [1 if a <= i < b else 0 for i in range(n)]
    else:
        window = [rnd.randint(0, 1) for _ in range(n)]
    # prices
    def plist(kind):
        if kind == "tariff3":
            lv = [F(rnd.randint(1, 40), 100) for _ in range(3)]
            return [rnd.choice(lv) for _ in range(n)]
        if kind == "flat":
            return [F(rnd.randint(0, 40), 100)] * n
        return [F(rnd.randint(-5, 60), 100) for _ in range(n)]
    pk = lambda: rnd.choice(["tariff3", "flat", "rand"])
    if scheme.startswith("variable"):
        m = rnd.choice(["both", "proc", "com"])
        prices = {}
        if m in ("both", "proc"):
            prices["procurement"] = plist(pk())
        if m in ("both", "com"):
            prices["commodity"] = plist(pk())
    else:
        m = rnd.choice(["list", "list", "none", "dict", "dictproc"])
        if m == "list":
            prices = plist(pk())
        elif m == "none":
            prices = None
        elif m == "dict":
            prices = {"commodity": plist(pk())}
        else:
            prices = {"procurement": plist(pk())}
    # schedule
    if scheme == "schedule" or rnd.random() < 0.2:
        sm = rnd.choice(["near", "rand", "none", "zero", "neg"])
        if sm == "none":
            sched = None
        elif sm == "near":
            sched = [max(F(0), -s) + F(rnd.randint(-30, 30), den) for s in supply]
        elif sm == "zero":
            sched = [F(0)] * n
        elif sm == "neg":
            sched = [F(rnd.randint(-50, 5), den) for _ in range(n)]
        else:
            sched = _profile(rnd, n, scale, den, "rand")
    else:
        sched = None
    if sheet == "rand":
        r = rnd.random()
        sheet = {"perturb": None} if r < 0.5 else {"perturb": rnd.randint(0, 10 ** 9)}
    sh = build_sheet(sheet)
    if pv == "rand":
        pv = rnd.choice(["0", "0", "lo", "mid", "hi", "k0", "k1", "k2"])
    if sh is not None:
        kwp = sh["feed-in_remuneration"]["PV"]["kWp"]
    else:
        kwp = [F(10), F(40), F(100)]
    eps = F(1, 1000)
    pvv = {"0": F(0), "lo": kwp[0] / 2, "mid": (kwp[0] + kwp[1]) / 2, "hi": (kwp[1] + kwp[2]) / 2,
           "k0": kwp[0], "k1": kwp[1], "k2": kwp[2], "k0+": kwp[0] + eps, "k1+": kwp[1] + eps,
           "k2+": kwp[2] + eps, "k0-": kwp[0] - eps, "k1-": kwp[1] - eps, "k2-": kwp[2] - eps,
           "neg": F(-5)}.get(pv)
    if pvv is None:
        pvv = F(pv)
    if js is None:
        js = 1 if rnd.random() < 0.5 else 0
    case = {"k": "x", "scheme": scheme, "vl": vl, "fee": fee, "sec": fs(minutes * 60), "n": n,
            "ts": rnd.choice(["none", "dt"]), "supply": supply, "prices": prices, "fix": fix,
            "gen": gen, "v2g": v2g, "bat": bat, "window": window, "pv": pvv, "sched": sched,
            "sheet": sheet, "json": js}
    if boundary:
        apply_boundary(case, boundary, rnd, sh)
    if malformed:
        apply_malformed(case, malformed, rnd)
    return serial(case)


def serial(case):
    """Fractions -> strings"""
    def s(v):
        if isinstance(v, F):
            return str(v)
        if isinstance(v, list):
            return [s(x) for x in v]
        if isinstance(v, dict):
            return {k: s(x) for k, x in v.items()}
        return v
    return {k: (v if k == "sheet" else s(v)) for k, v in case.items()}


def apply_boundary(case, b, rnd, sh):
    """rewrite the supply series so that a decision of the tariff rules sits exactly on (or a hair
    beside) its boundary"""
    n = case["n"]
    sec = F(case["sec"])
    kind, side = b
    delta = {"eq": F(0), "lo": -F(1, 10 ** 6), "hi": F(1, 10 ** 6)}[side]
    if kind == "energy":
        # energy per year = 100000 (+delta) kWh: scale the drawn profile
        draw = [max(F(0), -F(x)) for x in case["supply"]]
        if sum(draw) == 0:
            draw = [F(1)] * n
        target = (F(100000) + delta) * n * sec / YEAR_S / (sec / 3600)
        c = target / sum(draw)
        case["supply"] = [-x * c for x in draw]
    elif kind == "util":
        # utilisation time = 2500 (+delta) h/a: one peak step, the rest within [a/2, 3a/2]
        a = F(rnd.randint(10, 4000), 10)
        others = [a * F(rnd.randint(50, 150), 100) for _ in range(n - 1)]
        S = sum(others)
        T = F(2500) + delta
        hy = F(YEAR_S, 3600) / n            # hours-per-year factor: E_pa = sum * hy
        M = S * hy / (T - hy)
        pos = rnd.randrange(n)
        draw = others[:pos] + [M] + others[pos:]
        case["supply"] = [-x for x in draw]
        if rnd.random() < 0.5:
            case["fee"] = "RLM"
    elif kind in ("plw_sig", "plw_diff", "plw_both"):
        vl = case["vl"]
        t = sh["strategy_related"]["peak_load_window"]["significance_threshold"][vl]
        if t <= 0 or t >= 100:
            t = F(20)
            case["sheet"] = dict(case["sheet"] or {})
            mods = dict(case["sheet"].get("mods") or {})
            mods["strategy_related|peak_load_window|significance_threshold|" + vl] = str(t)
            case["sheet"]["mods"] = mods
        if kind == "plw_sig":       # significance on the boundary, difference clearly above 100 kW
            M = F(100) * 100 / t * 3
            P = M * (1 - (t + delta * 1000) / 100)
        elif kind == "plw_diff":    # difference on the boundary, significance clearly above
            P = F(rnd.randint(1, 50))
            M = P + 100 + delta
            if (M - P) / M * 100 <= t:
                P = F(1, 10)
                M = P + 100 + delta
        else:                       # both exactly on / beside the boundary
            M = F(100) * 100 / t
            P = M - 100
            M = M + delta
        out_idx = rnd.randrange(n)
        window = [1] * n
        window[out_idx] = 0
        draw = [P * F(rnd.randint(0, 100), 100) for _ in range(n)]
        draw[out_idx] = M
        in_idx = rnd.choice([i for i in range(n) if i != out_idx])
        draw[in_idx] = P
        case["window"] = window
        case["supply"] = [-x for x in draw]
        if case["scheme"] not in ("fixed_w_plw", "variable_w_plw"):
            case["scheme"] = "fixed_w_plw"
            if isinstance(case["prices"], dict):
                case["prices"] = None
        if rnd.random() < 0.7:
            case["fee"] = "RLM"


def apply_malformed(case, m, rnd):
    n = case["n"]
    if m == "short_fix":
        case["fix"] = case["fix"][: n - 1]
    elif m == "short_prices":
        p = case["prices"]
        if isinstance(p, list):
            case["prices"] = p[: n - 1]
        elif isinstance(p, dict):
            case["prices"] = {k: v[: n - 1] for k, v in p.items()}
    elif m == "short_window":
        if case["window"] is not None:
            case["window"] = case["window"][: n - 1]
    elif m == "window_none":
        case["window"] = None
    elif m == "long_sched":
        case["sched"] = [F(1)] * (n + 1)
    elif m == "short_sched":
        case["sched"] = [F(1)] * (n - 1)
    elif m == "empty_sched":
        case["sched"] = []
    elif m == "zero_steps":
        for k in ("supply", "fix"):
            case[k] = []
        for k in ("gen", "v2g", "bat", "window", "sched"):
            if case[k] is not None:
                case[k] = []
        if isinstance(case["prices"], list):
            case["prices"] = []
        elif isinstance(case["prices"], dict):
            case["prices"] = {k: [] for k in case["prices"]}
        case["n"] = 0
    elif m == "zero_interval":
        case["sec"] = "0"
    elif m == "ts_more":
        case["n"] = n + rnd.randint(1, 5)
    elif m == "ts_fewer":
        case["n"] = max(0, n - rnd.randint(1, 3))
    elif m == "vl_ehv":
        case["vl"] = rnd.choice(VLS[5:])
    elif m == "fee_other":
        case["fee"] = "XYZ"
    elif m == "scheme_other":
        case["scheme"] = rnd.choice(["not-implemented", "distributed"])
    elif m == "prices_wrong":
        if case["scheme"].startswith("variable"):
            case["prices"] = rnd.choice([None, [F(1)] * n, {}])
        else:
            case["prices"] = []
    elif m == "no_operator":
        case["sheet"] = None
    elif m == "pv_big":
        case["pv"] = F(10 ** 6)
    elif m == "pv_short":
        case["sheet"] = dict(case["sheet"] or {"perturb": None})
        case["sheet"]["pvcut"] = rnd.randint(0, 2)
        case["pv"] = F(99)


MALFORMED = ["short_fix", "short_prices", "short_window", "window_none", "long_sched", "short_sched",
             "empty_sched", "zero_steps", "zero_interval", "ts_more", "ts_fewer", "vl_ehv", "fee_other",
             "scheme_other", "prices_wrong", "no_operator", "pv_big", "pv_short"]


def gen_cases(tier, seed):
    rnd = random.Random(seed * 7919 + 12)
    sub = lambda: rnd.randint(0, 2 ** 40)
    yield {"k": "const"}
    yield {"k": "round", "seed": sub()}
    # systematic sweep (short profiles, JSON section on)
    for scheme in SCHEMES:
        for vl in VLS[:5]:
            for fee in (None, "SLP", "RLM"):
                for pv in ("0", "lo", "mid", "hi"):
                    yield make_case(sub(), n=rnd.choice([4, 6, 8, 12, 24]), scheme=scheme, vl=vl, fee=fee,
                                    pv=pv, js=1, sheet={"perturb": None} if rnd.random() < 0.6
                                    else {"perturb": sub()})
    # boundaries, constructed exactly
    nb = 6 if tier == "quick" else 40
    for _ in range(nb):
        for scheme in SCHEMES:
            for side in ("eq", "lo", "hi"):
                yield make_case(sub(), n=rnd.choice([4, 8, 24, 96]), scheme=scheme, fee=rnd.choice([None, "SLP"]),
                                boundary=("energy", side), js=1)
                yield make_case(sub(), n=rnd.choice([4, 8, 24, 96]), scheme=scheme,
                                boundary=("util", side), js=0)
        for kind in ("plw_sig", "plw_diff", "plw_both"):
            for side in ("eq", "lo", "hi"):
                for scheme in ("fixed_w_plw", "variable_w_plw"):
                    yield make_case(sub(), n=rnd.choice([4, 8, 24]), scheme=scheme, boundary=(kind, side), js=1)
        for pv in ("k0", "k1", "k2", "k0+", "k1+", "k2+", "k0-", "k1-", "k2-", "neg"):
            yield make_case(sub(), n=8, pv=pv, js=0)
    # random profiles
    n_rand = 1500 if tier == "quick" else 24000
    for _ in range(n_rand):
        yield make_case(sub())
    # long profiles (generated inside the worker from the sub-seed)
    longs = [2000] * 14 + [2016, 1999] if tier == "quick" else [8760, 35040, 35040, 17520, 8064, 35040, 35040, 35040] * 4
    for n in longs:
        yield {"k": "gen", "seed": sub(), "n": n}
    # malformed stream
    nm = 6 if tier == "quick" else 60
    for _ in range(nm):
        for m in MALFORMED:
            yield make_case(sub(), n=rnd.choice([4, 6, 9]), malformed=m,
                            scheme=rnd.choice(["flex_window", "fixed_w_plw", "schedule"]) if m == "window_none"
                            else rnd.choice(["variable_wo_plw", "variable_w_plw", "balanced_market"])
                            if m == "prices_wrong" else rnd.choice(SCHEMES))
    # float streams
    nf = 200 if tier == "quick" else 4000
    for _ in range(nf):
        yield {"k": "float", "seed": sub()}
    ncsv = 60 if tier == "quick" else 1000
    for _ in range(ncsv):
        yield {"k": "csv", "seed": sub()}
    sims = [("scenario_A.json", "greedy"), ("scenario_PV_Bat.json", "balanced"),
            ("scenario_C1.json", "balanced_market"), ("scenario_C2.json", "flex_window"),
            ("scenario_2vehicles_building_pv_bat.json", "peak_load_window"),
            ("scenario_2vehicles_building_pv_bat.json", "balanced"), ("scenario_B.json", "peak_shaving")]
    if tier == "quick":
        sims = [sims[(seed + i) % len(sims)] for i in range(3)]
    for sc, st in sims:
        yield {"k": "sim", "scenario": sc, "strategy": st}


def search_cases(seed, disagreements):
    """wider search when only P or C broke: more boundary and random cases on other seeds"""
    rnd = random.Random(seed * 104729 + 5)
    sub = lambda: rnd.randint(0, 2 ** 40)
    for i in range(20000):
        r = i % 4
        if r == 0:
            kind = rnd.choice(["energy", "util", "plw_sig", "plw_diff", "plw_both"])
            yield make_case(sub(), n=rnd.choice([4, 8, 24, 96]), boundary=(kind, rnd.choice(["eq", "lo", "hi"])), js=1)
        elif r == 1:
            yield make_case(sub(), pv=rnd.choice(["k0", "k1", "k2", "k0+", "k1+", "k2+", "lo", "mid", "hi"]), js=1)
        else:
            yield make_case(sub(), js=1)


# ------------------------------------------------------------------------------------------
# running the real code exactly

class Interval:
    """duck-typed timedelta with exact arithmetic (only what calculate_costs uses)"""

    def __init__(self, seconds):
        self.s = seconds if isinstance(seconds, Q) else Q(seconds)

    def total_seconds(self):
        return self.s

    def __rmul__(self, k):
        return Interval(self.s * k)

    __mul__ = __rmul__

    def __truediv__(self, o):
        if isinstance(o, datetime.timedelta):
            return self.s / Q(F(o // datetime.timedelta(microseconds=1), 10 ** 6))
        if isinstance(o, Interval):
            return self.s / o.s
        return Interval(self.s / o)


_TMP = {}


def tmpdir():
    """per-process scratch directory (price sheet / results / CSV files handed to the real code);
    directories of earlier runs older than two hours are removed"""
    if "d" not in _TMP or _TMP.get("pid") != os.getpid():
        import shutil
        import time
        base = os.path.join(tempfile.gettempdir(), "c12_verif_%d" % os.getuid())
        os.makedirs(base, exist_ok=True)
        for name in os.listdir(base):
            q = os.path.join(base, name)
            try:
                if time.time() - os.path.getmtime(q) > 7200:
                    shutil.rmtree(q, ignore_errors=True)
            except OSError:
                pass
        d = os.path.join(base, str(os.getpid()))
        os.makedirs(d, exist_ok=True)
        _TMP["d"] = d
        _TMP["pid"] = os.getpid()
    return _TMP["d"]


class exact_json:
    """for the duration of one call: json.load produces exact numbers, json.dump is captured"""

    def __enter__(self):
        self.real_load, self.real_dump = json.load, json.dump
        self.dumped = None

        def load(fp, **kw):
            return self.real_load(fp, parse_float=Q, parse_int=Q)

        def dump(obj, fp, **kw):
            self.dumped = obj
            kw.pop("default", None)
            return self.real_dump(obj, fp, default=lambda x: float(x), **kw)
        json.load, json.dump = load, dump
        return self

    def __exit__(self, *a):
        json.load, json.dump = self.real_load, self.real_dump
        return False


def qlist(l):
    return None if l is None else [Q(x) for x in l]


def timestamps(case, n, variant=0):
    if case.get("ts") == "none" and variant == 0:
        return [None] * n
    start = datetime.datetime(2020 + 3 * variant, 1 + variant, 1 + 5 * variant, 7 * variant, 0)
    step = datetime.timedelta(seconds=float(F(case["sec"]))) if variant != 2 else datetime.timedelta(0)
    return [start + i * step for i in range(n)]


def impl_args(case, variant=0):
    prices = case["prices"]
    if isinstance(prices, dict):
        prices = {k: qlist(v) for k, v in prices.items()}
    else:
        prices = qlist(prices)
    return dict(
        cc_type=case["scheme"], voltage_level=case["vl"], interval=Interval(Q(case["sec"])),
        timestamps_list=timestamps(case, case["n"], variant),
        power_grid_supply_list=qlist(case["supply"]), price_list=prices,
        power_fix_load_list=qlist(case["fix"]), power_generation_feed_in_list=qlist(case["gen"]),
        power_v2g_feed_in_list=qlist(case["v2g"]), power_battery_feed_in_list=qlist(case["bat"]),
        window_signal_list=None if case["window"] is None else
        [None if w is None else bool(w) for w in case["window"]],
        fee_type=case["fee"], power_pv_nominal=Q(case["pv"]),
        power_schedule_list=qlist(case["sched"]))


def run_exact(case, with_json, variant=0, sheet_path=None):
    """→ (result dict | exception, captured results JSON or None)"""
    from spice_ev import costs
    d = tmpdir()
    if sheet_path is None:
        sheet_path = os.path.join(d, "sheet.json")
        sh = build_sheet(case["sheet"])
        with open(sheet_path, "w") as f:
            f.write(sheet_json_text(sh) if sh is not None else '{"other_operator": {"x": 1}}')
    kw = impl_args(case, variant)
    res_path = None
    if with_json:
        res_path = os.path.join(d, "results.json")
        with open(res_path, "w") as f:
            f.write('{"peak load time windows": {}}')
    import warnings
    with warnings.catch_warnings():
        warnings.simplefilter("ignore")
        with exact_json() as ej:
            try:
                r = costs.calculate_costs(price_sheet_path=sheet_path, results_json=res_path, **kw)
            except Exception as e:  # noqa
                r = e
    return r, ej.dumped


RES_KEYS = ["total_costs_per_year", "commodity_costs_eur_per_year", "capacity_costs_eur",
            "power_procurement_costs_per_year", "levies_fees_and_taxes_per_year",
            "feed_in_remuneration_per_year"]


def cq(x):
    if isinstance(x, str):
        return "info" if x == INFO else "str:" + x.replace(" ", "_")
    return canon(Q(x))


def err_kind(e):
    """exception kind as the model names it"""
    if isinstance(e, NotImplementedError):
        return "!RuntimeError"          # NotImplementedError is a RuntimeError
    if isinstance(e, (AttributeError,)):
        return "!Exception"             # `price_list.get` on a non-dict
    return err(e)


def r_result(r):
    if isinstance(r, Exception):
        return err_kind(r)
    p = r["peak_power_in_windows"]
    return " ".join([cq(r[k]) for k in RES_KEYS] + ["N" if p is None else "S " + cq(p)])


def json_leaves(doc, scheme):
    """numeric leaves of the written "costs" section, by key (order of the model's jsonSection)"""
    out = []
    if scheme.endswith("w_plw"):
        out.append(cq(doc["peak load time windows"]["significance threshold from price sheet"]))
    ec = doc["costs"]["electricity costs"]
    for period, gf in (("per year", "grid_fee"), ("for simulation period", "grid fee")):
        p = ec[period]
        g = p[gf]
        out += [cq(p["total (gross)"]), cq(g["total grid fee"])]
        c = g["commodity costs"]
        out += [cq(c["total costs"]), cq(c["costs for fixed load"]), cq(c["costs for flexible load"])]
        if period == "per year":
            k = g["capacity_or_basic_costs"]
        else:
            name = [x for x in g if x in ("capacity costs", "basic costs")]
            out.append(name[0].replace(" ", "_") if len(name) == 1 else "str:capacity_key_missing")
            k = g[name[0]]
        out += [cq(k["total costs"]), cq(k["costs for fixed load"]), cq(k["costs for flexible load"])]
        out += [cq(g["additional costs"]), cq(p["power procurement"])]
        lv = p["levies"]
        out += [cq(lv[x]) for x in ("EEG levy", "chp levy", "individual charge levy", "Offshore levy",
                                    "interruptible loads levy")]
        out += [cq(p["concession fee"]), cq(p["taxes"]["value added tax"]), cq(p["taxes"]["tax on electricity"])]
        fi = p["feed-in remuneration"]
        out += [cq(fi["PV"]), cq(fi["V2G"]), cq(fi["battery"])]
    return out


def scheme_tok(s):
    return s if s in SCHEMES else "other"


def fee_tok(f):
    return {None: "N", "SLP": "SLP", "RLM": "RLM"}.get(f, "X")


def nl(l):
    return "%d %s" % (len(l), " ".join(str(x) for x in l)) if l else "0"


def ol(l):
    return "N" if l is None else "S " + nl(l)


def case_line(case, mode, sheet=None):
    p = case["prices"]
    if p is None:
        pt = "N"
    elif isinstance(p, dict):
        pt = "D %s %s" % (ol(p.get("procurement")), ol(p.get("commodity")))
    else:
        pt = "L " + nl(p)
    w = case["window"]
    wt = "N" if w is None else "S " + nl([1 if x else 0 for x in w])
    sh = build_sheet(case["sheet"]) if sheet is None else sheet
    return " ".join(["costs q", str(mode), scheme_tok(case["scheme"]),
                     str(VLS.index(case["vl"])), fee_tok(case["fee"]), str(case["sec"]), str(case["n"]),
                     nl(case["supply"]), pt, nl(case["fix"]), ol(case["gen"]), ol(case["v2g"]),
                     ol(case["bat"]), wt, str(case["pv"]), ol(case["sched"]), sheet_wire(sh)])


def expand(case):
    if case["k"] == "gen":
        c = make_case(case["seed"], n=case["n"], js=0)
        return c
    return case


# ------------------------------------------------------------------------------------------
# oracle 1: independent restatement of the documented composition (exact, Fractions)

def r2(x):
    """round half even to cents"""
    return F(round(F(x) * 100), 100)


def tariff_class(fee, energy_pa):
    """SLP up to 100 MWh/a, otherwise RLM; a forced SLP is overridden above the limit"""
    small = abs(energy_pa) <= 100000
    if fee is None:
        return "SLP" if small else "RLM"
    if fee == "SLP" and not small:
        return "RLM"
    return fee


def sheet_rates(sh, cls, vl, util):
    """(commodity ct/kWh, capacity EUR/kW/a or basic EUR/a) by class, bracket, voltage level"""
    if cls == "SLP":
        s = sh["grid_fee"]["SLP"]
        return s["commodity_charge_ct/kWh"]["net_price"], s["basic_charge_EUR/a"]["net_price"]
    col = sh["grid_fee"]["RLM"]["<2500_h/a" if util < 2500 else ">=2500_h/a"]
    return col["commodity_charge_ct/kWh"][vl], col["capacity_charge_EUR/kW*a"][vl]


def is_wf(c):
    n = c["n"]
    if n < 1 or F(c["sec"]) <= 0 or c["sheet"] is None or c["scheme"] not in SCHEMES:
        return False
    if c["vl"] not in VLS[:5] or c["fee"] not in (None, "SLP", "RLM"):
        return False
    if (c["sheet"] or {}).get("pvcut") is not None:
        return False
    for k in ("supply", "fix"):
        if len(c[k]) != n:
            return False
    for k in ("gen", "v2g", "bat", "window", "sched"):
        if c[k] is not None and len(c[k]) != n:
            return False
    p = c["prices"]
    if isinstance(p, dict):
        if any(len(v) != n for v in p.values()):
            return False
        if c["scheme"].startswith("variable") and not p:
            return False
    elif p is not None:
        if len(p) != n or c["scheme"].startswith("variable"):
            return False
    elif c["scheme"].startswith("variable"):
        return False
    if c["scheme"] == "flex_window" and c["window"] is None:
        return False
    return True


def spec_costs(c, sh):
    """the documented composition on a well-formed case → dict of unrounded values, or the name
    of the documented error"""
    n, vl, scheme = c["n"], c["vl"], c["scheme"]
    h = F(c["sec"]) / 3600
    fy = n * F(c["sec"]) / YEAR_S
    g = [max(-F(x), F(0)) for x in c["supply"]]
    fx = [max(F(x), F(0)) for x in c["fix"]]
    E = sum(g) * h
    Epa = E / fy
    P = max(g)
    P = max(P, F(0))
    plw = scheme in ("fixed_w_plw", "variable_w_plw")
    util = F(0) if P == 0 else (F(2500) if plw else Epa / P)
    cls = tariff_class(c["fee"], Epa)
    com_rate, cap_rate = sheet_rates(sh, cls, vl, util)
    win = c["window"]
    peak_win = None if win is None else max([gi for gi, wi in zip(g, win) if wi] + [F(0)])
    out = {"peak": peak_win}
    proc_sim = sh["power_procurement"]["charge"] * E / 100
    com_sim = None
    if scheme.startswith("fixed"):
        com_sim = com_rate * E / 100
    elif scheme.startswith("variable"):
        pr = c["prices"]
        cl = [F(x) for x in pr["commodity"]] if "commodity" in pr else [com_rate] * n
        pl = [F(x) for x in pr["procurement"]] if "procurement" in pr else [sh["power_procurement"]["charge"]] * n
        com_sim = sum(gi * h * ci for gi, ci in zip(g, cl)) / 100
        proc_sim = sum(gi * h * pi for gi, pi in zip(g, pl)) / 100
    peak = P
    if plw:
        pw = peak_win if peak_win is not None else F(0)
        out["peak"] = pw
        thr = sh["strategy_related"]["peak_load_window"]["significance_threshold"][vl]
        if P > 0 and (P - pw) / P * 100 > thr and P - pw > 100:
            peak = pw
        out["plw"] = ["plw_applied" if peak is pw and P != pw else "plw_not_applied"]
        if P > 0 and (P - pw) / P * 100 == thr:
            out["plw"].append("boundary_plw_significance_eq")
        if P - pw == 100:
            out["plw"].append("boundary_plw_100kW_eq")
    capacity = cap_rate if cls == "SLP" else cap_rate * peak
    if scheme in ("balanced_market", "flex_window", "schedule"):
        Pf = max(fx + [F(0)])
        if Pf == 0:
            com_fix, cap_fix = F(0), F(0)
        else:
            Ef = sum(fx) * h
            cls = tariff_class(cls, Ef / fy)
            rf, kf = sheet_rates(sh, cls, vl, Ef / fy / Pf)
            if scheme == "schedule":
                rf = rf - sh["strategy_related"]["schedule"]["reduction_of_commodity_charge"]
            com_fix, cap_fix = rf * Ef / 100, kf * Pf
        flex = [max(gi - fi, F(0)) for gi, fi in zip(g, fx)]
        cls = tariff_class(cls, Epa)
        r_flex, k_flex = sheet_rates(sh, cls, vl, F(2500))      # grid-friendly column, always
        if scheme == "balanced_market":
            pr = c["prices"]
            if isinstance(pr, dict):
                pr = pr.get("commodity")
            pl = [com_rate] * n if pr is None else [F(x) * 100 for x in pr]
            top = max(pl)
            high = max([fl for fl, p in zip(flex, pl) if p == top] + [F(0)])
            com_flex = sum(fl * h * p for fl, p in zip(flex, pl)) / 100
            cap_flex = k_flex * high
        elif scheme == "flex_window":
            com_flex = r_flex * sum(flex) * h / 100
            off = [fl for fl, w in zip(flex, win) if not w]
            cap_flex = k_flex * max(off) if off else F(0)
        else:
            com_flex = r_flex * sum(flex) * h / 100
            if c["sched"] is None:
                cap_flex = F(0)
            else:
                sp = [max(F(x), F(0)) for x in c["sched"]]
                dev = max(max(gi - si, F(0)) for gi, si in zip(g, sp))
                tol = max(sp) * sh["strategy_related"]["schedule"]["deviation_tolerance"]
                cap_flex = sh["strategy_related"]["schedule"]["deviation_charge"] * max(dev - tol, F(0))
        com_sim = com_fix + com_flex
        capacity = cap_fix + cap_flex
        out["ff"] = (com_fix / fy, com_flex / fy, cap_fix, cap_flex, com_fix, com_flex)
    add_year = sh["grid_fee"]["RLM"]["additional_costs"]["costs"] if cls == "RLM" else F(0)
    lev = sh["levies"]
    per_kwh = {"eeg": lev["EEG_levy"], "chp": lev["chp_levy"], "ind": lev["individual_charge_levy"],
               "off": lev["offshore_levy"], "int": lev["interruptible_loads_levy"],
               "concession": sh["concession_fee"]["charge"], "tax": sh["taxes"]["tax_on_electricity"]}
    energy_costs = {k: v * E / 100 for k, v in per_kwh.items()}
    net_sim = com_sim + capacity + proc_sim + add_year * fy + sum(energy_costs.values())
    net_year = (net_sim - capacity) / fy + capacity
    vat = sh["taxes"]["value_added_tax"] / 100
    pvn = F(c["pv"])
    fr = sh["feed-in_remuneration"]
    if pvn == 0:
        pv_rate = F(0)
    else:
        pv_rate = None
        for k, r in zip(fr["PV"]["kWp"], fr["PV"]["remuneration"]):
            if pvn <= k:
                pv_rate = r
                break
        if pv_rate is None:
            return "ValueError"
    feed = {}
    for name, rate, lst in (("pv", pv_rate, c["gen"]), ("v2g", fr["V2G"], c["v2g"]), ("bat", fr["battery"], c["bat"])):
        e = (sum(F(x) for x in lst) if lst is not None else F(0)) * h
        feed[name] = rate * e / 100
    out.update({
        "cls": cls, "fy": fy, "E": E, "Epa": Epa, "util": util,
        "com_sim": com_sim, "com_year": com_sim / fy, "capacity": capacity,
        "proc_sim": proc_sim, "proc_year": proc_sim / fy, "add_year": add_year, "add_sim": add_year * fy,
        "energy_sim": energy_costs, "energy_year": {k: v / fy for k, v in energy_costs.items()},
        "vat_sim": vat * net_sim, "vat_year": vat * net_year,
        "feed_sim": feed, "feed_year": {k: v / fy for k, v in feed.items()},
        "total_sim": net_sim * (1 + vat) - sum(feed.values()),
        "total_year": net_year * (1 + vat) - sum(feed.values()) / fy,
        "thr": sh["strategy_related"]["peak_load_window"]["significance_threshold"].get(vl) if plw else None,
    })
    return out


def spec_result(sp):
    ey = sp["energy_year"]
    lev = r2(sum(r2(ey[k]) for k in ("eeg", "chp", "ind", "off", "int", "concession", "tax")) + r2(sp["vat_year"]))
    return [r2(sp["total_year"]), r2(sp["com_year"]), r2(sp["capacity"]), r2(sp["proc_year"]), lev,
            r2(sum(sp["feed_year"].values())), sp["peak"]]


def spec_leaves(sp, scheme):
    """expected leaves of the JSON section (same order as json_leaves)"""
    out = []
    if sp["thr"] is not None:
        out.append(sp["thr"])
    ff = sp.get("ff")
    cy, cap = r2(sp["com_year"]), r2(sp["capacity"])
    basic = scheme.startswith(("fixed", "variable")) and sp["cls"] == "SLP"
    for per in ("year", "sim"):
        tot = sp["total_" + per]
        com = cy if per == "year" else sp["com_sim"]
        out += [r2(tot), r2(com + cap), r2(com)]
        out += ["info", "info"] if ff is None else ([ff[0], ff[1]] if per == "year" else [ff[4], ff[5]])
        if per == "sim":
            out.append("basic_costs" if basic else "capacity_costs")
        out.append(cap)
        out += ["info", "info"] if ff is None else [ff[2], ff[3]]
        e = sp["energy_" + per]
        out += [r2(sp["add_" + per]), r2(sp["proc_" + per])]
        out += [r2(e[k]) for k in ("eeg", "chp", "ind", "off", "int", "concession")]
        out += [r2(sp["vat_" + per]), r2(e["tax"])]
        f = sp["feed_" + per]
        out += [r2(f["pv"]), r2(f["v2g"]), r2(f["bat"])]
    return [x if isinstance(x, str) else str(F(x)) for x in out]


LEAF_NAMES = (["total", "total_grid_fee", "commodity", "commodity_fix", "commodity_flex", "capacity",
               "capacity_fix", "capacity_flex", "additional", "procurement", "eeg", "chp", "individual",
               "offshore", "interruptible", "concession", "vat", "electricity_tax", "feedin_pv",
               "feedin_v2g", "feedin_battery"])


def leaf_name(i, scheme):
    if scheme.endswith("w_plw"):
        if i == 0:
            return "significance_threshold"
        i -= 1
    if i < 21:
        return "year_" + LEAF_NAMES[i]
    i -= 21
    names = LEAF_NAMES[:5] + ["capacity_key"] + LEAF_NAMES[5:]
    return "sim_" + names[i] if i < len(names) else "extra"


# ------------------------------------------------------------------------------------------
# oracle 2: metamorphic sentences, evaluated on the implementation

def rep_list(l, k):
    return None if l is None else list(l) * k


def halve_list(l):
    return None if l is None else [x for x in l for _ in (0, 1)]


def transform(c, fn, n, sec):
    d = dict(c)
    for key in ("supply", "fix", "gen", "v2g", "bat", "window", "sched"):
        d[key] = fn(c[key])
    p = c["prices"]
    d["prices"] = {k: fn(v) for k, v in p.items()} if isinstance(p, dict) else fn(p)
    d["n"], d["sec"] = n, sec
    return d


# ------------------------------------------------------------------------------------------

def eval_exact(case):
    c = expand(case)
    js = bool(c.get("json"))
    wf = is_wf(c)
    sh = build_sheet(c["sheet"])
    viol, stats = [], []
    r, dumped = run_exact(c, js)
    impl = r_result(r)
    if js and not isinstance(r, Exception) and dumped is not None:
        try:
            impl += " | " + " ".join(json_leaves(dumped, c["scheme"]))
        except Exception as e:  # noqa
            impl += " | !json_section_" + type(e).__name__
    line = case_line(c, 1 if js else 0, sheet=sh)
    scheme = c["scheme"]
    if not wf:
        stats.append("malformed")
        if isinstance(r, Exception):
            stats.append("malformed_" + type(r).__name__)
        return {"lines": [line], "impl": [impl], "violations": [], "nontrivial": False, "stats": stats}
    # ---- oracle (well-formed cases only)
    sp = spec_costs(c, sh)
    stats.append("scheme_" + scheme)
    if isinstance(sp, str):
        stats.append("pv_out_of_range")
        if not isinstance(r, Exception) or type(r).__name__ != sp:
            viol.append(("pv_bracket", "C12:pv_out_of_range_not_rejected", "pv=%s result=%s" % (c["pv"], impl[:80])))
        return {"lines": [line], "impl": [impl], "violations": viol, "nontrivial": False, "stats": stats}
    stats += ["class_" + sp["cls"], "vl_" + c["vl"], "fee_" + str(c["fee"]),
              "bracket_" + ("lo" if sp["util"] < 2500 else "hi")]
    if sp["Epa"] == 100000:
        stats.append("boundary_energy_eq")
    if sp["util"] == 2500 and not scheme.endswith("w_plw"):
        stats.append("boundary_util_eq")
    if F(c["pv"]) != 0:
        stats.append("pv_nonzero")
    stats += sp.get("plw", [])
    if "ff" in sp:
        stats.append("fixed_load_zero" if sp["ff"][2] == 0 and sp["ff"][4] == 0 else "fixed_load_present")
    if js:
        stats.append("json_section")
    if isinstance(r, Exception):
        key = "C12:raises_%s_%s%s" % (type(r).__name__, scheme, "_json" if js else "")
        if isinstance(r, UnboundLocalError) and js and scheme.startswith("variable"):
            key = "C12:variable_scheme_results_json_unbound_local"
        viol.append(("returns_for_every_scheme", key, "%s: %s" % (type(r).__name__, str(r)[:120])))
        return {"lines": [line], "impl": [impl], "violations": viol, "nontrivial": True, "stats": stats}
    want = spec_result(sp)
    got = [Q(r[k]).v for k in RES_KEYS] + [None if r["peak_power_in_windows"] is None
                                            else Q(r["peak_power_in_windows"]).v]
    names = ["total", "commodity", "capacity", "procurement", "levies_fees_taxes", "feed_in", "peak_in_windows"]
    clause = {"total": "vat_feedin_annual", "commodity": "energy_linear", "capacity": "peak",
              "procurement": "energy_linear", "levies_fees_taxes": "energy_linear", "feed_in": "vat_feedin",
              "peak_in_windows": "peak"}
    bad = [nm for nm, w, gt in zip(names, want, got) if w != gt]
    # report the root, not its consequences: VAT (inside levies_fees_taxes) and the total depend on
    # the components, so they are reported only when no component they are computed from is off
    report = [nm for nm in bad if nm in ("commodity", "capacity", "procurement", "feed_in", "peak_in_windows")]
    if "levies_fees_taxes" in bad and not set(bad) & {"commodity", "capacity", "procurement"}:
        report.append("levies_fees_taxes")
    if bad == ["total"]:
        report.append("total")
    for nm, w, gt in zip(names, want, got):
        if nm in report:
            viol.append((clause[nm], "C12:%s_%s" % (nm, scheme), "got %s want %s (class %s, util %s, E/a %s)"
                         % (gt, w, sp["cls"], sp["util"], sp["Epa"])))
    if js and dumped is not None and " | !" not in impl and not bad:
        wl = spec_leaves(sp, scheme)
        gl = impl.split(" | ")[1].split()
        if len(wl) != len(gl):
            viol.append(("json", "C12:json_shape", "%d leaves, expected %d" % (len(gl), len(wl))))
        else:
            for i, (w, gt) in enumerate(zip(wl, gl)):
                if w != gt:
                    viol.append(("json", "C12:json_%s_%s" % (leaf_name(i, scheme), scheme), "got %s want %s" % (gt, w)))
                    break
    # ---- metamorphic sentences on the implementation
    n = c["n"]
    which = case.get("meta")
    if which is None:
        which = ["repeat", "halve", "date"] if n <= 48 else [["repeat"], ["halve"], ["date"]][n % 3] if n <= 1000 else []
    base = [Q(r[k]).v for k in RES_KEYS] + [r["peak_power_in_windows"]]
    for m in which:
        if m == "repeat":
            k = 2 + (n % 2)
            c2 = transform(c, lambda l: rep_list(l, k), n * k, c["sec"])
        elif m == "halve":
            c2 = transform(c, halve_list, n * 2, str(F(c["sec"]) / 2))
        else:
            c2 = dict(c)
        r2_, _ = run_exact(c2, False, variant=(1 + n % 2) if m == "date" else 0)
        if isinstance(r2_, Exception):
            viol.append((m, "C12:%s_invariant_raises_%s" % (m, scheme), type(r2_).__name__))
            continue
        other = [Q(r2_[k]).v for k in RES_KEYS] + [r2_["peak_power_in_windows"]]
        if other != base:
            diff = [nm for nm, a, b in zip(names, base, other) if a != b]
            viol.append((m + "_invariant", "C12:%s_invariant_%s" % (m, scheme),
                         "fields %s differ: %s vs %s" % (diff, [str(x) for x in base], [str(x) for x in other])))
        stats.append("meta_" + m)
    nontrivial = sp["E"] > 0
    return {"lines": [line], "impl": [impl], "violations": viol, "nontrivial": nontrivial, "stats": stats}


# ------------------------------------------------------------------------------------------
# constants anchor (ast-based, reads $VERIF_REPO)

def extract_constants():
    """UTILIZATION_TIME_PER_YEAR_EC, MAX_ENERGY_SUPPLY_PER_YEAR_SLP, days of the reference year and
    the kW literal of the PLW rule, read from the source of spice_ev/costs.py"""
    import ast
    src = (engine.REPO / "spice_ev" / "costs.py").read_text()
    tree = ast.parse(src)
    out = {"util": None, "slp": None, "year_s": None, "plw_kw": None}
    for node in tree.body:
        if isinstance(node, ast.Assign) and len(node.targets) == 1 and isinstance(node.targets[0], ast.Name):
            nm = node.targets[0].id
            if isinstance(node.value, ast.Constant):
                if nm == "UTILIZATION_TIME_PER_YEAR_EC":
                    out["util"] = node.value.value
                elif nm == "MAX_ENERGY_SUPPLY_PER_YEAR_SLP":
                    out["slp"] = node.value.value
    for node in ast.walk(tree):
        if (isinstance(node, ast.Call) and isinstance(node.func, ast.Attribute) and node.func.attr == "timedelta"
                and node.keywords and node.keywords[0].arg == "days"
                and isinstance(node.keywords[0].value, ast.Constant)):
            out["year_s"] = node.keywords[0].value.value * 86400
        if (isinstance(node, ast.Compare) and isinstance(node.left, ast.Name) and node.left.id == "peak_diff"
                and isinstance(node.comparators[0], ast.Constant)):
            out["plw_kw"] = node.comparators[0].value
    return out


def eval_const(case):
    k = extract_constants()
    missing = [a for a, v in k.items() if v is None]
    impl = "%s %s %s %s" % (k["util"], k["slp"], k["year_s"], k["plw_kw"])
    return {"lines": ["costconst q"], "impl": [impl], "violations": [], "nontrivial": False,
            "stats": ["const_anchor"] + ["anchor_not_found_" + m for m in missing]}


def eval_round(case):
    rnd = random.Random(case["seed"])
    xs = []
    for _ in range(400):
        t = rnd.random()
        if t < 0.3:       # ties
            xs.append(F(2 * rnd.randint(-5000, 5000) + 1, 200))
        elif t < 0.5:
            xs.append(F(rnd.randint(-10 ** 6, 10 ** 6), 100))
        elif t < 0.7:
            xs.append(F(2 * rnd.randint(-5000, 5000) + 1, 200) + F(rnd.choice([-1, 1]), 10 ** rnd.randint(3, 12)))
        else:
            xs.append(F(rnd.randint(-10 ** 9, 10 ** 9), rnd.randint(1, 10 ** 6)))
    line = "round2 q %d %s" % (len(xs), " ".join(str(x) for x in xs))
    impl = " ".join(str(round(x, 2)) for x in xs)
    return {"lines": [line], "impl": [impl], "violations": [], "nontrivial": False, "stats": ["round_half_even"]}


# ------------------------------------------------------------------------------------------
# float streams

def fl(x):
    return None if x is None else float(F(x))


def flist(l):
    return None if l is None else [float(F(x)) for x in l]


def exact_of_floats(l):
    return None if l is None else [str(F(x)) for x in l]


def _float_sheet(sh):
    """the sheet as json.load would deliver it from the decimal text: exact values of the floats"""
    doc = json.loads(sheet_json_text(sh))["default_grid_operator"]

    def conv(v):
        if isinstance(v, dict):
            return {k: conv(x) for k, x in v.items()}
        if isinstance(v, list):
            return [conv(x) for x in v]
        if isinstance(v, (int, float)) and not isinstance(v, bool):
            return F(v)
        return v
    return conv(doc)


def fcanon(x):
    if x is None:
        return "N"
    if isinstance(x, str):
        return "info" if x == INFO else "str:" + x.replace(" ", "_")
    return repr(float(x))


def float_leaves(doc, scheme):
    """json_leaves, but numbers as float reprs"""
    global cq
    saved = cq
    try:
        cq = fcanon
        return json_leaves(doc, scheme)
    finally:
        cq = saved


def float_result(r):
    if isinstance(r, Exception):
        return err_kind(r)
    p = r["peak_power_in_windows"]
    return " ".join([repr(float(r[k])) for k in RES_KEYS] + ["N" if p is None else "S " + repr(float(p))])


def model_case_from_floats(kw, n, sec, pv, sheet_exact):
    """explicit exact case from the float arguments handed to calculate_costs"""
    p = kw["price_list"]
    if isinstance(p, dict):
        p = {k: exact_of_floats(v) for k, v in p.items()}
    else:
        p = exact_of_floats(p)
    w = kw["window_signal_list"]
    return {"scheme": kw["cc_type"], "vl": kw["voltage_level"], "fee": kw.get("fee_type"), "sec": str(F(sec)),
            "n": n, "supply": exact_of_floats(kw["power_grid_supply_list"]), "prices": p,
            "fix": exact_of_floats(kw["power_fix_load_list"]),
            "gen": exact_of_floats(kw["power_generation_feed_in_list"]),
            "v2g": exact_of_floats(kw["power_v2g_feed_in_list"]),
            "bat": exact_of_floats(kw["power_battery_feed_in_list"]),
            "window": None if w is None else [1 if x else 0 for x in w], "pv": str(F(pv)),
            "sched": exact_of_floats(kw.get("power_schedule_list"))}


def eval_float(case):
    """real code on plain floats (real json, real timedelta) vs the exact model on the same floats"""
    from spice_ev import costs
    rnd = random.Random(case["seed"])
    c = make_case(case["seed"], n=rnd.choice([4, 8, 24, 96, 97, 288, 672, 2000]), js=1)
    stats = ["float_stream"]
    if not is_wf(c):
        return {"lines": [], "impl": [], "violations": [], "nontrivial": False, "stats": ["float_skipped"]}
    sh = build_sheet(c["sheet"])
    d = tmpdir()
    sp = os.path.join(d, "fsheet.json")
    with open(sp, "w") as f:
        f.write(sheet_json_text(sh))
    rp = os.path.join(d, "fresults.json")
    with open(rp, "w") as f:
        f.write('{"peak load time windows": {}}')
    p = c["prices"]
    kw = dict(
        cc_type=c["scheme"], voltage_level=c["vl"], power_grid_supply_list=flist(c["supply"]),
        price_list={k: flist(v) for k, v in p.items()} if isinstance(p, dict) else flist(p),
        power_fix_load_list=flist(c["fix"]), power_generation_feed_in_list=flist(c["gen"]),
        power_v2g_feed_in_list=flist(c["v2g"]), power_battery_feed_in_list=flist(c["bat"]),
        window_signal_list=None if c["window"] is None else [None if w is None else bool(w) for w in c["window"]],
        fee_type=c["fee"], power_schedule_list=flist(c["sched"]))
    sec = float(F(c["sec"]))
    pv = fl(c["pv"])
    import warnings
    with warnings.catch_warnings():
        warnings.simplefilter("ignore")
        try:
            r = costs.calculate_costs(interval=datetime.timedelta(seconds=sec),
                                      timestamps_list=timestamps(c, c["n"], 1), price_sheet_path=sp,
                                      results_json=rp, power_pv_nominal=pv, **kw)
        except Exception as e:  # noqa
            r = e
    impl = float_result(r)
    if not isinstance(r, Exception):
        with open(rp) as f:
            impl += " | " + " ".join(float_leaves(json.load(f), c["scheme"]))
    mc = model_case_from_floats(kw, c["n"], sec, pv, None)
    line = case_line(mc, 2, sheet=_float_sheet(sh))
    return {"lines": [line], "impl": ["float " + impl], "violations": [], "nontrivial": True,
            "stats": stats + ["float_" + c["scheme"]]}


CSV_COLS = ["price [EUR/kWh]", "grid supply [kW]", "fixed load [kW]", "local generation [kW]",
            "battery power [kW]", "sum CS power [kW]", "generation feed-in [kW]", "V2G feed-in [kW]",
            "battery feed-in [kW]"]


def eval_csv(case):
    """calculate_costs.py path: CSV -> read_simulation_csv -> calculate_costs, all floats"""
    import calculate_costs as ccpy
    from spice_ev import costs
    rnd = random.Random(case["seed"])
    n = rnd.choice([4, 8, 24, 96, 288])
    minutes = rnd.choice([5, 10, 15, 30, 60, 45, 40])
    scale = rnd.choice([1, 20, 300, 5000])
    cols = {}
    mil = lambda lo, hi: F(rnd.randint(int(lo * 1000), int(hi * 1000)), 1000)
    cols["price [EUR/kWh]"] = [mil(0, 0.5) for _ in range(n)]
    cols["grid supply [kW]"] = [mil(-scale, scale / 5) for _ in range(n)]
    cols["fixed load [kW]"] = [mil(0, scale / 2) for _ in range(n)]
    cols["local generation [kW]"] = [-mil(0, scale / 3) if rnd.random() < 0.5 else F(0) for _ in range(n)]
    cols["battery power [kW]"] = [mil(-scale / 4, scale / 4) for _ in range(n)]
    cols["sum CS power [kW]"] = [mil(-scale / 10, scale) for _ in range(n)]
    for k in ("generation feed-in [kW]", "V2G feed-in [kW]", "battery feed-in [kW]"):
        cols[k] = [mil(0, scale / 5) if rnd.random() < 0.3 else F(0) for _ in range(n)]
    present = [k for k in CSV_COLS if rnd.random() < 0.85 or k == "grid supply [kW]"]
    has_w = rnd.random() < 0.6
    has_s = rnd.random() < 0.5
    strategy = rnd.choice(["greedy", "balanced", "balanced_market", "peak_shaving", "peak_load_window",
                           "flex_window", "schedule", "distributed"])
    if strategy == "flex_window":
        has_w = True
    header = ["timestep", "time"] + present + (["window signal [-]"] if has_w else []) + (["schedule [kW]"] if has_s else [])
    win = [rnd.randint(0, 1) for _ in range(n)]
    sched = [mil(0, scale) for _ in range(n)]
    d = tmpdir()
    path = os.path.join(d, "ts.csv")
    t0 = datetime.datetime(2021, 3, 4, 0, 0)
    with open(path, "w", newline="") as f:
        f.write(",".join(header) + "\n")
        for i in range(n):
            row = [str(i), (t0 + i * datetime.timedelta(minutes=minutes)).isoformat()]
            row += [repr(float(cols[k][i])) for k in present]
            if has_w:
                row.append(str(win[i]))
            if has_s:
                row.append(repr(float(sched[i])))
            f.write(",".join(row) + "\n")
    viol, stats = [], ["csv_stream", "csv_" + strategy]
    lists = ccpy.read_simulation_csv(path)
    colf = {k: [float(x) for x in cols[k]] if k in present else [0.0] * n for k in CSV_COLS}
    # column mapping (adapter): returned lists are the named columns
    mapping = {"price_list": "price [EUR/kWh]", "power_grid_supply_list": "grid supply [kW]",
               "power_generation_feed_in_list": "generation feed-in [kW]",
               "power_v2g_feed_in_list": "V2G feed-in [kW]", "power_battery_feed_in_list": "battery feed-in [kW]"}
    for k, col in mapping.items():
        if lists[k] != colf[col]:
            viol.append(("csv_columns", "C12:csv_column_" + k, "list differs from column %r" % col))
    if has_s and lists["power_schedule_list"] != [float(x) for x in sched]:
        viol.append(("csv_columns", "C12:csv_column_power_schedule_list", "differs"))
    if not has_s and lists["power_schedule_list"] is not None:
        viol.append(("csv_columns", "C12:csv_column_power_schedule_list", "expected None"))
    if has_w and lists["window_signal_list"] != [bool(w) for w in win]:
        viol.append(("csv_columns", "C12:csv_column_window_signal_list", "differs"))
    if len(lists["timestamps_list"]) != n:
        viol.append(("csv_columns", "C12:csv_column_timestamps_list", "length"))
    line1 = "fixload q %s %s %s %s" % tuple(nl(exact_of_floats(colf[k])) for k in (
        "fixed load [kW]", "local generation [kW]", "battery power [kW]", "sum CS power [kW]"))
    impl1 = "floatlist %d %s" % (n, " ".join(repr(x) for x in lists["power_fix_load_list"]))
    cc_type = costs.DEFAULT_COST_CALCULATION[strategy]
    vl = rnd.choice(VLS[:5])
    fee = rnd.choice([None, "SLP", "RLM"])
    pv = rnd.choice([0, 0, 5, 30, 99])
    sheet_spec = {"perturb": None} if rnd.random() < 0.6 else {"perturb": rnd.randint(0, 10 ** 9)}
    sh = build_sheet(sheet_spec)
    sp = os.path.join(d, "fsheet.json")
    with open(sp, "w") as f:
        f.write(sheet_json_text(sh))
    rp = os.path.join(d, "fresults.json")
    with open(rp, "w") as f:
        f.write('{"peak load time windows": {}}')
    import warnings
    with warnings.catch_warnings():
        warnings.simplefilter("ignore")
        try:
            r = costs.calculate_costs(cc_type=cc_type, voltage_level=vl,
                                      interval=datetime.timedelta(minutes=minutes), **lists,
                                      price_sheet_path=sp, grid_operator="default_grid_operator",
                                      fee_type=fee, results_json=rp, power_pv_nominal=pv)
        except Exception as e:  # noqa
            r = e
    impl2 = float_result(r)
    if not isinstance(r, Exception):
        with open(rp) as f:
            impl2 += " | " + " ".join(float_leaves(json.load(f), cc_type))
    kw = dict(lists)
    kw.update(cc_type=cc_type, voltage_level=vl, fee_type=fee)
    mc = model_case_from_floats(kw, n, minutes * 60, pv, None)
    line2 = case_line(mc, 2, sheet=_float_sheet(sh))
    return {"lines": [line1, line2], "impl": [impl1, "float " + impl2], "violations": viol,
            "nontrivial": True, "stats": stats}


def eval_sim(case):
    """simulate.simulate end to end (scenario run, fixed-load correction, calculate_costs, results JSON)"""
    import contextlib
    import csv
    import io
    import simulate as simpy
    d = tmpdir()
    rec = []
    real = simpy.calculate_costs

    def wrap(**kw):
        r = real(**kw)
        rec.append((kw, r))
        return r
    ts, rj = os.path.join(d, "sim_ts.csv"), os.path.join(d, "sim_res.json")
    sheet_path = engine.REPO / "examples" / "data" / "price_sheet.json"
    simpy.calculate_costs = wrap
    import warnings
    try:
        with warnings.catch_warnings(), contextlib.redirect_stdout(io.StringIO()):
            warnings.simplefilter("ignore")
            simpy.simulate({"input": str(engine.REPO / "tests" / "test_data" / "input_test_strategies" / case["scenario"]),
                            "strategy": case["strategy"], "cost_calc": True, "margin": 0.05,
                            "cost_parameters_file": str(sheet_path), "save_timeseries": ts, "save_results": rj,
                            "strategy_option": [["time_windows", str(
                                engine.REPO / "tests" / "test_data" / "input_test_strategies" /
                                "time_windows_example.json")]] if case["strategy"] == "peak_load_window" else []})
    except Exception as e:  # noqa  (the scenario run itself failed: nothing to compare for C12)
        return {"lines": [], "impl": [], "violations": [], "nontrivial": False,
                "stats": ["sim_run_failed_" + type(e).__name__]}
    finally:
        simpy.calculate_costs = real
    if not rec:
        return {"lines": [], "impl": [], "violations": [], "nontrivial": False, "stats": ["sim_no_cost_call"]}
    kw, r = rec[-1]
    n = len(kw["timestamps_list"])
    with open(ts, newline="") as f:
        rows = list(csv.DictReader(f))
    col = lambda k: [float(row[k]) if k in row else 0.0 for row in rows]
    line1 = "fixload q %s %s %s %s" % tuple(nl(exact_of_floats(col(k))) for k in (
        "fixed load [kW]", "local generation [kW]", "battery power [kW]", "sum CS power [kW]"))
    impl1 = "floatlist %d %s" % (n, " ".join(repr(float(x)) for x in kw["power_fix_load_list"]))
    with open(rj) as f:
        doc = json.load(f)
    impl2 = float_result(r) + " | " + " ".join(float_leaves(doc, kw["cc_type"]))
    sec = kw["interval"].total_seconds()
    mc = model_case_from_floats(kw, n, sec, kw["power_pv_nominal"], None)
    line2 = case_line(mc, 2, sheet=_float_sheet(base_sheet()))
    return {"lines": [line1, line2], "impl": [impl1, "float " + impl2], "violations": [], "nontrivial": True,
            "stats": ["sim_stream", "sim_" + case["strategy"]]}


def eval_case(case):
    k = case["k"]
    if k == "const":
        return eval_const(case)
    if k == "round":
        return eval_round(case)
    if k == "float":
        return eval_float(case)
    if k == "csv":
        return eval_csv(case)
    if k == "sim":
        return eval_sim(case)
    return eval_exact(case)


# ------------------------------------------------------------------------------------------
# comparison (exact streams: equality; float streams: tolerance)

def _near_half_cent(u):
    x = u * 100
    fr = x - (x.numerator // x.denominator)
    return abs(fr - F(1, 2)) <= F(1, 10 ** 6) + abs(x) / 10 ** 9


def _cmp_float_tokens(impl_toks, m_round, m_raw, composite):
    if len(impl_toks) != len(m_round) or len(m_round) != len(m_raw):
        return "shape: %d vs %d tokens" % (len(impl_toks), len(m_round))
    for i, (a, m, u) in enumerate(zip(impl_toks, m_round, m_raw)):
        if a in ("N", "S", "info") or a.startswith("str:") or a.endswith("_costs"):
            if a != m:
                return "token %d: %s vs %s" % (i, a, m)
            continue
        try:
            x, mv, uv = F(float(a)), F(m), F(u)
        except ValueError:
            return "token %d: %s vs %s" % (i, a, m)
        tol = abs(mv) / 10 ** 9 + F(1, 10 ** 9)
        if abs(x - mv) <= tol:
            continue
        k = composite.get(i, 0)
        if k and abs(x - mv) <= F(k, 100) + tol:
            continue
        if _near_half_cent(uv) and abs(x - mv) <= F(1, 100) + tol:
            continue
        return "token %d: impl %s model %s (unrounded %s)" % (i, a, m, float(uv))
    return None


def compare(case, impl, model):
    if impl.startswith("floatlist "):
        a = impl.split()[2:]
        b = model.split()[1:]
        if len(a) != len(b):
            return "fixed-load list length %d vs %d" % (len(a), len(b))
        for i, (x, y) in enumerate(zip(a, b)):
            if abs(F(float(x)) - F(y)) > abs(F(y)) / 10 ** 12 + F(1, 10 ** 12):
                return "fixed-load[%d]: impl %s model %s" % (i, x, y)
        return None
    if impl.startswith("float "):
        impl = impl[6:]
        if impl.startswith("!") or model.startswith("!"):
            return None if impl == model else "differs"
        parts = model.split(" | ")
        if len(parts) != 5:
            return "model output shape"
        raw = dict(t.split("=") for t in parts[4].split())
        for key, b in (("energyPa", 100000), ("util", 2500)):
            v = F(raw[key])
            if abs(v - b) <= F(b, 10 ** 9):
                return None                      # within 1e-9 of a bracket boundary: not judged
        ip = impl.split(" | ")
        d = _cmp_float_tokens(ip[0].split(), parts[0].split(), parts[2].split(), {4: 9})
        if d:
            return "result " + d
        if len(ip) > 1:
            off = 1 if parts[1].split()[0:1] and len(parts[1].split()) == 44 else 0
            comp = {off + 1: 3, off + 21 + 1: 2}
            d = _cmp_float_tokens(ip[1].split(), parts[1].split(), parts[3].split(), comp)
            if d:
                return "json " + d
        return None
    return None if impl == model else "differs"
