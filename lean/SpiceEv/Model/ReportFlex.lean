/-
Composition of the flex-band model (Model/FlexBand.lean: `generate_flex_band`) with the report model
(Model/Report.lean): `report.generate_reports` calls, per grid connector,

    try:    scenario.flex_bands[gcID] = generate_flex_band(scenario, gcID)
    except Exception: scenario.flex_bands[gcID] = None

(or sets `scenario.flex_bands = None` with `skip_flex_report`) before `aggregate_timeseries` and
`aggregate_local_results` read `flex["min"|"base"|"max"][idx]` and `flex["intervals"]`.  Here the
`flex` field of the run record is COMPUTED by the flex-band model from the scenario state handed to
`generate_flex_band` instead of being an input.

`conv` converts the number type of the band model into the one of the report model: the identity in
the theorems; in the driver the band runs on `Float` (bit-exact with the real function) and every
value becomes the exact rational of the double, on which the report model rounds half-even.
-/
import SpiceEv.Model.Report
import SpiceEv.Model.FlexBand
namespace SpiceEv.ReportFlex
open SpiceEv

/-- what `generate_reports` stores in `scenario.flex_bands[gcID]`, as the report model sees it -/
def flexOfResult {α β : Type} (conv : β → α) (r : Py (FlexBand.Flex β)) : Report.Flex α :=
  match r with
  | .ok f => .band (f.min.map conv) (f.base.map conv) (f.max.map conv)
      (f.intervals.map (fun iv => (conv iv.needed, iv.numPresent)))
  | .error _ => .failed                       -- except Exception: flex_bands[gcID] = None

/-- the run record whose flex band is the one generated for it (`skip` = option skip_flex_report) -/
def withBand {α β : Type} (conv : β → α) (R : Report.RunData α) (skip : Bool)
    (r : Py (FlexBand.Flex β)) : Report.RunData α :=
  { R with flex := if skip then .skipped else flexOfResult conv r }

section
variable {α : Type} [Add α] [Sub α] [Mul α] [Div α] [Neg α] [LT α] [LE α]
  [DecidableLT α] [DecidableLE α] [OfNat α 0] [OfNat α 1] [NatCast α]
variable {β : Type}

/-- `aggregate_timeseries` after `generate_flex_band` -/
def timeseriesWithBand (rnd : α → α) (conv : β → α) (R : Report.RunData α) (skip : Bool)
    (r : Py (FlexBand.Flex β)) : Py (List String × List (List (Report.Cell α))) :=
  Report.aggregateTimeseries rnd (withBand conv R skip r)

/-- `aggregate_local_results` after `generate_flex_band` -/
def localWithBand (conv : β → α) (R : Report.RunData α) (skip : Bool) (r : Py (FlexBand.Flex β))
    (ts : Option (List String × List (List (Report.Cell α)))) : Py (Report.LocalResults α) :=
  Report.aggregateLocal (withBand conv R skip r) ts

end
end SpiceEv.ReportFlex
