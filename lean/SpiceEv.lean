import SpiceEv.Py
import SpiceEv.Wire
import SpiceEv.Model.Curve
import SpiceEv.Cmd.Curve
import SpiceEv.Proofs.Basic
import SpiceEv.Proofs.Curve
import SpiceEv.Properties.C03
